// C19 executor: the same small set of operations compiled against one feature set of the crate under test.
// One JSON line in, one JSON line out.  Contains no reference semantics.
use serde_json::{json, Value as J};
use std::io::{BufRead, Write};

fn unhex(s: &str) -> Vec<u8> {
  (0..s.len() / 2)
    .map(|i| u8::from_str_radix(&s[2 * i..2 * i + 2], 16).unwrap_or(0))
    .collect()
}

fn parse_op(text: &str) -> J {
  match cddl::cddl_from_str(text, false) {
    Ok(c) => json!({"ok": true, "rules": c.rules.len(), "fmt": c.to_string()}),
    Err(_) => json!({"ok": false}),
  }
}

#[cfg(feature = "json")]
fn validate_json(cddl_text: &str, doc: &str) -> J {
  #[cfg(feature = "additional-controls")]
  let r = cddl::validate_json_from_str(cddl_text, doc, None);
  #[cfg(not(feature = "additional-controls"))]
  let r = cddl::validate_json_from_str(cddl_text, doc);
  match r {
    Ok(()) => json!({"kind": "ok"}),
    Err(e) => {
      let s = e.to_string();
      json!({"kind": "err", "msg": s})
    }
  }
}

#[cfg(feature = "cbor")]
fn validate_cbor(cddl_text: &str, hex: &str) -> J {
  let b = unhex(hex);
  #[cfg(feature = "additional-controls")]
  let r = cddl::validate_cbor_from_slice(cddl_text, &b, None);
  #[cfg(not(feature = "additional-controls"))]
  let r = cddl::validate_cbor_from_slice(cddl_text, &b);
  match r {
    Ok(()) => json!({"kind": "ok"}),
    Err(e) => {
      let s = e.to_string();
      json!({"kind": "err", "msg": s})
    }
  }
}

fn main() {
  let stdin = std::io::stdin();
  let stdout = std::io::stdout();
  for line in stdin.lock().lines() {
    let line = match line {
      Ok(l) => l,
      Err(_) => break,
    };
    let op: J = match serde_json::from_str(&line) {
      Ok(v) => v,
      Err(_) => continue,
    };
    let name = op["op"].as_str().unwrap_or("");
    let cddl_text = op["cddl"].as_str().unwrap_or("");
    let r = std::panic::catch_unwind(|| match name {
      "parse" => parse_op(cddl_text),
      #[cfg(feature = "json")]
      "validate_json" => validate_json(cddl_text, op["json"].as_str().unwrap_or("")),
      #[cfg(feature = "cbor")]
      "validate_cbor" => validate_cbor(cddl_text, op["hex"].as_str().unwrap_or("")),
      _ => json!({"unsupported": true}),
    });
    let obs = match r {
      Ok(v) => v,
      Err(_) => json!({"panic": true}),
    };
    let mut o = stdout.lock();
    let _ = writeln!(o, "{}", json!({"id": op["id"], "obs": obs}));
    let _ = o.flush();
  }
  let _ = unhex("");
}
