"""Shared machinery for the semantic properties (C01, C02, C04, C08, C09, C10, C13):
render abstract cases, run them through the real validators, have TLC judge the recorded events."""
import concurrent.futures
import json
import os

import cborlib as C
import cddlgen as G
import vlib


def case_to_op(case, cid):
    """abstract case {fmt, rules, val[, enc]} -> executor op"""
    text = case.get("cddl") or G.render(case["rules"])
    if case["fmt"] == "json":
        return {"id": cid, "op": "validate_json", "cddl": text, "json": C.to_json_text(case["val"])}
    b = case.get("bytes")
    if b is None:
        b = C.encode(case["val"])
    return {"id": cid, "op": "validate_cbor", "cddl": text, "hex": bytes(b).hex()}


def run_cases(cases, per_case_timeout=30):
    ops = [case_to_op(c, i) for i, c in enumerate(cases)]
    res = vlib.execute(ops, per_case_timeout=per_case_timeout)
    return ops, res


def no_nulls(o):
    """the Json module of TLC cannot read null: drop null-valued fields (absent options carry no information)"""
    if isinstance(o, dict):
        return {k: no_nulls(v) for k, v in o.items() if v is not None}
    if isinstance(o, list):
        return [no_nulls(v) for v in o]
    return o


def judge(events, wd, known_dev, module="Trace_Sem", chunk=1500, workers=8, timeout=1800):
    """events: list of dicts understood by the trace spec. Returns {index: verdict} for non-ok events."""
    if not events:
        return {}
    events = [no_nulls(e) for e in events]
    chunks = [events[i:i + chunk] for i in range(0, len(events), chunk)]
    cfg = os.path.join(wd, module + ".cfg")
    vlib.write_cfg(cfg, constants={"KnownDev": vlib.tla_set(known_dev)}, postcondition="Consumed")

    def one(k):
        path = os.path.join(wd, "%s_%d.ndjson" % (module, k))
        with open(path, "w") as f:
            for e in chunks[k]:
                f.write(json.dumps(e) + "\n")
        r = vlib.tlc(module, cfg, wd, env_extra={"TRACE": path}, workers=1, timeout=timeout, xmx="3g")
        if not r.ok:
            raise vlib.ToolError("%s failed on %s:\n%s" % (module, path, r.raw_tail))
        os.remove(path)
        outv = {}
        for tag, o in r.lines:
            if tag == "V":
                if o["v"] == "unconsumed":
                    raise vlib.ToolError("trace not consumed: " + str(o))
                outv[k * chunk + o["l"] - 1] = o["v"]
        return outv
    res = {}
    with concurrent.futures.ThreadPoolExecutor(max_workers=workers) as ex:
        for r in ex.map(one, range(len(chunks))):
            res.update(r)
    return res


# ------------------------------------------------------------------ construct tags / signatures
def tags_of_rules(rules):
    tags = set()

    def t1(t):
        k = t["k"]
        if k == "lit":
            tags.add("lit:" + t["v"]["k"])
        elif k == "ref":
            tags.add("ref:" + t["n"] if t["n"] in G.PRELUDE_CBOR or t["n"] in ("float64", "float32", "float16", "undefined") else "ref:rule")
            for a in t["args"]:
                t1(a)
            if t["args"]:
                tags.add("generic-args")
        elif k == "paren":
            tags.add("paren")
            ty(t["t"])
        elif k in ("map", "arr", "enumg"):
            tags.add(k)
            grp(t["g"], k)
        elif k in ("unwrap", "enumr"):
            tags.add(k)
        elif k == "tag":
            tags.add("tag")
            ty(t["t"])
        elif k == "major":
            tags.add("major%d" % t["mt"])
        elif k == "any":
            tags.add("#")
        elif k == "range":
            tags.add("range" + ("" if t["incl"] else "-excl"))
            t1(t["lo"])
            t1(t["hi"])
        elif k == "ctl":
            tags.add("." + t["op"])
            t1(t["t"])
            t1(t["arg"])

    def ty(t):
        if len(t["alts"]) > 1:
            tags.add("choice")
        for a in t["alts"]:
            t1(a)

    def entry(e, ctx):
        occ = (e["lo"], e["hi"])
        if occ != (1, 1):
            tags.add("%s-occ:%s" % (ctx, {(0, 1): "?", (0, -1): "*", (1, -1): "+"}.get(occ, "n*m")))
        if e["k"] == "ent":
            kk = e["key"]["kk"]
            if kk != "none":
                tags.add("%s-key:%s" % (ctx, kk + ("-cut" if kk == "type" and e["key"]["cut"] else "")))
                if kk == "type":
                    t1(e["key"]["t"])
            ty(e["t"])
        elif e["k"] == "sub":
            tags.add(ctx + "-subgroup")
            grp(e["g"], ctx)
        else:
            tags.add(ctx + "-name-entry")

    def grp(g, ctx):
        if len(g["galts"]) > 1:
            tags.add(ctx + "-groupchoice")
        for alt in g["galts"]:
            for e in alt:
                entry(e, ctx)

    for r in rules:
        if r["op"] != "=":
            tags.add("op" + r["op"])
        if r["params"]:
            tags.add("generic-params")
        if r["kind"] == "type":
            ty(r["t"])
        else:
            tags.add("grouprule")
            entry(r["e"], "grule")
    return tags


def value_tags(v):
    tags = set()

    def go(x):
        tags.add("v:" + x["k"])
        if x["k"] == "int" and x["neg"]:
            tags.add("v:negative")
        if x["k"] == "arr":
            for i in x["items"]:
                go(i)
        if x["k"] == "map":
            for p in x["pairs"]:
                go(p["key"])
                go(p["val"])
        if x["k"] == "tag":
            go(x["c"])
    go(v)
    return tags


def gen_pairs(rnd, fmt, n_schemas, per_schema=8, depth=3, max_rules=4, profile="core"):
    """random schema x (valid-by-construction attempts, near-miss mutants, unrelated values)"""
    cases = []
    for _ in range(n_schemas):
        g = G.Gen(rnd, fmt=fmt, max_rules=max_rules, depth=rnd.choice([1, 2, depth]), profile=profile)
        rules = g.schema()
        vals = []
        for _ in range(per_schema):
            inst = G.Inst(rnd, rules, fmt)
            v = inst.of_type(rules[0]["t"])
            x = rnd.random()
            if x < 0.45:
                pass
            elif x < 0.85:
                v = G.mutate(rnd, v, fmt)
            else:
                v = C.rand_value(rnd, depth=2, full=(fmt == "cbor"))
            if fmt == "json" and not C.is_json_model(v):
                continue
            vals.append(v)
        seen = set()
        for v in vals:
            s = json.dumps(v, sort_keys=True)
            if s in seen:
                continue
            seen.add(s)
            cases.append({"fmt": fmt, "rules": rules, "val": v})
    return cases
