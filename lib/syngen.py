"""Full-syntax CDDL document generator (abstract CddlAst) and a token-level renderer with trivia
(whitespace, newlines, CRLF, comments incl. a final comment without line break, optional commas)
and a spelling choice per literal.  The generator follows the ABNF of RFC 8610 App. B / RFC 9682;
spec/Grammar.tla (not this file) decides derivability of the rendered text.  Glue only."""
import base64
import json

import cborlib as C
import cddlgen as G

CTL_NAMES = ["size", "bits", "regexp", "cbor", "cborseq", "within", "and", "lt", "le", "gt", "ge", "eq", "ne", "default"]
CTL_EXTRA = ["cat", "det", "plus", "abnf", "abnfb", "feature", "pcre", "b64u", "b64c", "hex", "hexlc", "hexuc", "b32", "h32", "b45", "base10", "printf",
             "json", "join", "b64u-sloppy", "b64c-sloppy", "iregexp", "bitfield"]
IDCH = set("abcdefghijklmnopqrstuvwxyzABCDEFGHIJKLMNOPQRSTUVWXYZ0123456789_@$.-")


class SynGen:
    def __init__(self, rnd, max_rules=4, depth=3):
        self.rnd = rnd
        self.max_rules = max_rules
        self.depth = depth
        self.names = []

    def tnames(self):
        """names usable in type positions (no sockets: $ names are added explicitly, $$ names are group sockets)"""
        return [n for n in self.names if not n.startswith("$")]

    def gnames(self):
        return [n for n in self.names if n.startswith("$$")]

    def ident(self):
        r = self.rnd
        return r.choice(["a", "b", "c1", "my-type", "x.y", "_p", "@q", "Abc", "t", "foo_bar", "a-b.c", "int2", "tstrx"])

    def value(self):
        r = self.rnd
        x = r.random()
        if x < 0.35:
            return C.mk_int(r.choice([0, 1, 2, 10, 255, 256, 65536, 2**32, 2**63, 2**64 - 1, -1, -2, -256, -2**63]))
        if x < 0.5:
            return C.mk_float(r.choice([1.5, -0.25, 2.75, 0.5, 100.0, 1.0, -3.0, 1e5]))
        if x < 0.8:
            return C.mk_text(r.choice(["", "a", "key", "x y", "é€", "q\"uo\\te", "semi;colon", "tab\tnl\n", "\U0001F600", "a/b", "\U0010FFFF", "x\U00100000", "\uFFFF\U00010000"]))
        return C.mk_bytes(r.choice([b"", b"a", b"\x01\x02", b"abc", b"\xff\x00", b"q;r"]))

    def tref(self):
        r = self.rnd
        n = r.choice(G.PRELUDE_CBOR + ["tdate", "uri", "float16", "undefined"]) if r.random() < 0.5 else r.choice(self.tnames() or ["a"])
        if r.random() < 0.15:
            n = r.choice(["$sock", "$my-s"])
        args = []
        if r.random() < 0.12 and not n.startswith("$"):      # generic arguments on a socket name: listed finding C03-socket-generics
            args = [self.t1(0) for _ in range(r.choice([1, 1, 2]))]
        return G.ref(n, args)

    def t2(self, d):
        r = self.rnd
        x = r.random()
        if d <= 0 or x < 0.3:
            y = r.random()
            if y < 0.5:
                return self.tref()
            if y < 0.85:
                return G.lit(self.value())
            if y < 0.9:
                return {"k": "any"}
            if y < 0.96:
                mt = r.choice([0, 1, 2, 3, 4, 5, 7])
                has = r.random() < 0.6
                return {"k": "major", "mt": mt, "has": has, "num": C.nat_bytes(r.choice([0, 1, 20, 25, 255, 1000]) if has else 0)}
            return {"k": "unwrap", "n": r.choice(self.tnames() or ["a"]), "args": []}
        if x < 0.45:
            return {"k": "arr", "g": self.group(d - 1)}
        if x < 0.62:
            return {"k": "map", "g": self.group(d - 1, in_map=True)}
        if x < 0.72:
            return G.paren(self.type(d - 1))
        if x < 0.8:
            tagk = r.choice(["lit", "lit", "any"])
            return {"k": "tag", "tagk": tagk, "tn": C.nat_bytes(r.choice([0, 1, 24, 32, 55799, 2**32]) if tagk == "lit" else 0), "t": self.type(d - 1)}
        if x < 0.86:
            return {"k": "enumg", "g": self.group(d - 1, in_map=True)}
        if x < 0.9:
            return {"k": "enumr", "n": r.choice(["$$gs", "grp"] + self.gnames()), "args": []}
        if x < 0.95:
            un = r.choice(self.tnames() or ["a"])
            return {"k": "unwrap", "n": un, "args": [self.t1(0)] if r.random() < 0.3 and not un.startswith("$") else []}
        return self.tref()

    def t1(self, d):
        r = self.rnd
        a = self.t2(d)
        x = r.random()
        if x < 0.78:
            return a
        b = self.t2(max(0, d - 1))
        if x < 0.88:
            return G.rng(a, b, r.random() < 0.5)
        return G.ctl(r.choice(CTL_NAMES if r.random() < 0.7 else CTL_EXTRA), a, b)

    def type(self, d):
        return G.T(*[self.t1(d) for _ in range(self.rnd.choice([1, 1, 1, 2, 3]))])

    def occ(self):
        return self.rnd.choice([(1, 1)] * 5 + [(0, 1), (0, -1), (1, -1), (2, -1), (0, 2), (1, 2), (2, 3), (3, 3), (0, 0)])

    def key(self):
        r = self.rnd
        x = r.random()
        if x < 0.35:
            return G.kbare(r.choice(["a", "b", "key", "my-key", "x1"]))
        if x < 0.55:
            v = self.value()
            if v["k"] == "bytes":                               # byte-string value as 'value :' member key: listed finding C03-bytes-colon-key
                v = C.mk_text("bk")
            return G.kval(v)
        t = self.t1(0)
        return G.ktype(t, cut=r.random() < 0.4)

    def entry0(self, d, in_map=False):
        r = self.rnd
        lo, hi = self.occ()
        x = r.random()
        if x < 0.65 or d <= 0:
            key = self.key() if (in_map and r.random() < 0.85) or r.random() < 0.15 else None
            return G.ent(self.type(d), lo, hi, key)
        if x < 0.8:
            n = r.choice((self.tnames() or ["a"]) + self.gnames() + ["$$gsock", "grp"])
            return G.name_ent(n, lo, hi, [self.t1(0)] if r.random() < 0.15 and not n.startswith("$") else [])
        return G.sub([[self.entry(d - 1, in_map) for _ in range(r.choice([1, 2, 2]))] for _ in range(r.choice([1, 1, 2]))], lo, hi)

    def entry(self, d, in_map=False):
        for _ in range(20):
            e = self.entry0(d, in_map)
            if G.in_fragment([e]):
                return e
        return G.ent(G.T(G.ref("int")))

    def group(self, d, in_map=False):
        r = self.rnd
        galts = []
        for _ in range(r.choice([1, 1, 1, 2, 3])):
            galts.append([self.entry(d, in_map) for _ in range(r.choice([0, 1, 1, 2, 3, 5]))])
        if len(galts) > 1:
            galts = [g if g else [self.entry(d, in_map)] for g in galts]
        return {"galts": galts}

    def document(self):
        r = self.rnd
        n = r.choice([0, 1, 1, 2, 3, self.max_rules])
        self.names = ["r%d" % i for i in range(n)]
        if n and r.random() < 0.3:
            self.names[r.randrange(n)] = r.choice(["$sock", "$$gsock", "my-rule", "x.y"])
        rules = []
        defined = set()
        for i, name in enumerate(self.names):
            params = ["T"] if r.random() < 0.15 else (["K", "V"] if r.random() < 0.05 else [])
            if name.startswith("$"):
                params = []
            kind = "group" if name.startswith("$$") or (r.random() < 0.25 and not name.startswith("$")) else "type"
            if name in defined:
                op = "/=" if kind == "type" else "//="
            else:
                op = "=" if not name.startswith("$") else ("/=" if kind == "type" else "//=")
            defined.add(name)
            if kind == "type":
                rules.append(G.trule(name, self.type(self.depth), op=op, params=params))
            else:
                # an occurrence in front of a group rule's parenthesised group: listed finding C03-group-rule-occurrence
                galts = [[self.entry(1) for _ in range(r.choice([2, 2, 3]))] for _ in range(r.choice([1, 1, 2]))]
                # '(x)' is a parenthesised type as well as a group: start with a keyed entry so that the rule is a group rule
                galts[0][0] = G.ent(self.type(0), 1, 1, G.kbare("k0"))
                e = G.sub(galts)
                rules.append(G.grule(name, e, op=op, params=params))
        return [x for x in rules if G.in_fragment([x])] if rules else rules


# ------------------------------------------------------------------ token renderer
S = ("S",)          # optional whitespace slot (ABNF S)


def spell_int(rnd, i):
    if rnd is None or i < 0 and rnd.random() < 0.5:
        return str(i)
    x = rnd.random()
    a = abs(i)
    sign = "-" if i < 0 else ""
    if x < 0.6:
        return str(i)
    if x < 0.85:
        return sign + rnd.choice(["0x", "0X"]) + rnd.choice(["%x", "%X"]) % a
    return sign + rnd.choice(["0b", "0B"]) + bin(a)[2:]


def spell_float(rnd, x):
    """decimal spellings of a binary64 value that denote exactly it: plain, exponent forms with and without a fraction,
    explicit '+' on the exponent, upper-case E"""
    plain = G.r_float(x)
    if rnd is None or x != x or x in (float("inf"), float("-inf")):
        return plain
    forms = [plain]
    if x == int(x) and abs(x) < 1e15 and x != 0:
        i = int(x)
        z = len(str(abs(i))) - len(str(abs(i)).rstrip("0"))
        if z:
            m = str(i)[:-z]
            forms += ["%se%d" % (m, z), "%se+%d" % (m, z), "%sE+%d" % (m, z), "%s.0e+%d" % (m, z)]
        forms += ["%de0" % i, "%de+0" % i, "%d.0e-0" % i]
    return rnd.choice(forms) if rnd.random() < 0.5 else plain


def spell_text(rnd, s):
    out = '"'
    for ch in s:
        o = ord(ch)
        if ch == '"':
            out += '\\"'
        elif ch == "\\":
            out += "\\\\"
        elif ch == "\n":
            out += "\\n"
        elif ch == "\t":
            out += "\\t"
        elif ch == "\r":
            out += "\\r"
        elif o < 0x20 or o == 0x7F:
            out += "\\u%04x" % o
        elif o > 0x10FFFD:
            out += "\\u{%X}" % o            # beyond SCHAR: only as an escape
        elif rnd is not None and rnd.random() < (0.5 if o > 0xFFFF else 0.15):
            if o > 0xFFFF:
                if rnd.random() < 0.5:
                    v = o - 0x10000
                    out += "\\u%04X\\u%04X" % (0xD800 + (v >> 10), 0xDC00 + (v & 0x3FF))
                else:
                    out += "\\u{%x}" % o
            else:
                out += rnd.choice(["\\u%04x" % o, "\\u{%X}" % o, "\\u{00%x}" % o])
        elif ch == "/" and rnd is not None and rnd.random() < 0.3:
            out += "\\/"
        else:
            out += ch
    return out + '"'


def spell_bytes(rnd, b):
    b = bytes(b)
    x = rnd.random() if rnd is not None else 0.0
    printable = all(0x20 <= c < 0x7F and c not in (0x27, 0x5C) for c in b)
    if x < 0.45 or (not printable and x < 0.6):
        h = b.hex()
        if rnd is not None and rnd.random() < 0.3:
            h = " ".join(h[i:i + 2] for i in range(0, len(h), 2))
        if rnd is not None and rnd.random() < 0.3:
            h = h.upper()
        return "h'" + h + "'"
    if x < 0.75 or not printable:
        e = base64.urlsafe_b64encode(b).decode() if (rnd is None or rnd.random() < 0.5) else base64.b64encode(b).decode()
        if rnd is not None and rnd.random() < 0.5:
            e = e.rstrip("=")
        return "b64'" + e + "'"
    return "'" + b.decode("ascii") + "'"


class Renderer:
    """produces a token list: strings and S slots; join() fills the slots"""

    def __init__(self, rnd=None, lit_variety=True):
        self.rnd = rnd
        self.lit_rnd = rnd if lit_variety else None

    def value(self, v):
        k = v["k"]
        if k == "int":
            return spell_int(self.lit_rnd, C.int_val(v))
        if k == "float":
            return spell_float(self.lit_rnd, C.float_val(v))
        if k == "text":
            return spell_text(self.lit_rnd, C.text_val(v))
        if k == "bytes":
            return spell_bytes(self.lit_rnd, v["bs"])
        raise ValueError(k)

    def args(self, args):
        if not args:
            return []
        out = ["<", S]
        for i, a in enumerate(args):
            if i:
                out += [",", S]
            out += self.t1(a) + [S]
        return out + [">"]

    def t2(self, t):
        if t["k"] in ("range", "ctl"):
            return ["(", S] + self.t1(t) + [S, ")"]
        return self.t1(t)

    def t1(self, t):
        k = t["k"]
        if k == "lit":
            return [self.value(t["v"])]
        if k == "ref":
            return [t["n"]] + self.args(t["args"])
        if k == "paren":
            return ["(", S] + self.type(t["t"]) + [S, ")"]
        if k == "map":
            return ["{", S] + self.group(t["g"]) + [S, "}"]
        if k == "arr":
            return ["[", S] + self.group(t["g"]) + [S, "]"]
        if k == "unwrap":
            return ["~", S, t["n"]] + self.args(t["args"])
        if k == "enumg":
            return ["&", S, "(", S] + self.group(t["g"]) + [S, ")"]
        if k == "enumr":
            return ["&", S, t["n"]] + self.args(t["args"])
        if k == "tag":
            head = "#6" if t["tagk"] == "any" else "#6.%d" % C.bytes_nat(t["tn"])
            return [head + "(", S] + self.type(t["t"]) + [S, ")"]
        if k == "major":
            return ["#%d" % t["mt"] + (".%d" % C.bytes_nat(t["num"]) if t["has"] else "")]
        if k == "any":
            return ["#"]
        if k == "range":
            return self.t2(t["lo"]) + [S, ".." if t["incl"] else "...", S] + self.t2(t["hi"])
        if k == "ctl":
            return self.t2(t["t"]) + [S, "." + t["op"], S] + self.t2(t["arg"])
        raise ValueError(k)

    def type(self, t):
        out = []
        for i, a in enumerate(t["alts"]):
            if i:
                out += [S, "/", S]
            out += self.t1(a)
        return out

    def occ(self, lo, hi):
        if (lo, hi) == (1, 1):
            return []
        r = self.rnd
        if (lo, hi) == (0, 1) and (r is None or r.random() < 0.8):
            return ["?", S]
        if (lo, hi) == (0, -1) and (r is None or r.random() < 0.8):
            return ["*", S]
        if (lo, hi) == (1, -1) and (r is None or r.random() < 0.8):
            return ["+", S]
        los = "" if lo == 0 and (r is None or r.random() < 0.5) else str(lo)
        return [los + "*" + ("" if hi == -1 else str(hi)), S]

    def key(self, key):
        kk = key["kk"]
        if kk == "none":
            return []
        if kk == "bare":
            return [key["n"], S, ":", S]
        if kk == "val":
            return [self.value(key["v"]), S, ":", S]
        return self.t1(key["t"]) + [S] + (["^", S] if key["cut"] else []) + ["=>", S]

    def entry(self, e):
        k = e["k"]
        out = self.occ(e["lo"], e["hi"])
        if k == "ent":
            return out + self.key(e["key"]) + self.type(e["t"])
        if k == "name":
            return out + [e["n"]] + self.args(e["args"])
        return out + ["(", S] + self.group(e["g"]) + [S, ")"]

    def group(self, g):
        out = []
        for i, alt in enumerate(g["galts"]):
            if i:
                out += [S, "//", S]
            for j, e in enumerate(alt):
                out += self.entry(e)
                last = j == len(alt) - 1
                if not last or (self.rnd is not None and self.rnd.random() < 0.2):
                    # optcom = S ["," S]
                    # entries are always separated by a comma (omitting the optional commas is outside the generated fragment)
                    out += [S, ",", S] if not last else [S, ","]
        return out

    def rule(self, r):
        out = [r["name"]]
        if r["params"]:
            out += ["<", S]
            for i, p in enumerate(r["params"]):
                if i:
                    out += [",", S]
                out += [p, S]
            out += [">"]
        out += [S, r["op"], S]
        if r["kind"] == "type":
            out += self.type(r["t"])
        else:
            out += self.entry(r["e"])
        return out

    def document(self, rules):
        out = [S]
        for r in rules:
            out += self.rule(r) + [("NL",)]
        return out


def join(tokens, rnd=None, comments=False, crlf=False, final_comment=False, collect=None):
    """fill S slots. rnd None: canonical single spaces. collect: list receiving the comment texts emitted."""
    nl = "\r\n" if crlf else "\n"
    out = []
    n = len(tokens)

    def needs_space(i):
        prev = next((t for t in reversed(tokens[:i]) if isinstance(t, str)), "")
        nxt = next((t for t in tokens[i + 1:] if isinstance(t, str)), "")
        if not prev or not nxt:
            return False
        a, b = prev[-1], nxt[0]
        if a in IDCH and b in IDCH:
            return True
        # operators that would fuse: "/" "/" ; "." "." ; "=" ">" ; "-" digits ; "*" digits ; "#" etc.
        if (a, b) in (("/", "/"), ("/", "="), (".", "."), ("=", ">"), ("*", "*"), ("^", "="), ("<", "<")):
            return True
        if a in "*+?" and (b.isdigit() or b in "*+?"):
            return True
        if b in "*" and (a.isdigit() or a in IDCH):
            return True
        if a == "#" or (a in IDCH and b in "(<") or (a in ".0123456789" and b in ".(") or (a in IDCH and b == "."):
            return True
        if b == "-" and a in IDCH:
            return True
        if a == "~" or a == "&":
            return False
        return False

    cno = [0]

    def trivia(i, force=False):
        if rnd is None:
            return " "
        x = rnd.random()
        if comments and x < 0.12:
            cno[0] += 1
            txt = rnd.choice([" c%d" % cno[0], "c%d ;; é" % cno[0], " c%d \"quoted\" 'x'" % cno[0], "", "; doubled %d" % cno[0], ";; banner %d ;;;" % cno[0],
                              " c%d trailing blanks  " % cno[0]])     # no TAB inside a comment: PCHAR = %x20-7E / %x80-10FFFD (listed leniency C03-tab-in-comment)
            if collect is not None:
                collect.append(txt)
            return " ;" + txt + nl
        if x < 0.55:
            return " "
        if x < 0.65:
            return "  "
        if x < 0.72:
            return "\t"
        if x < 0.85:
            return nl
        if x < 0.92:
            return nl + "  "
        return " " if (force or needs_space(i)) else ""

    for i, t in enumerate(tokens):
        if isinstance(t, str):
            out.append(t)
        elif t[0] == "S":
            out.append(trivia(i))
        elif t[0] == "S1":
            s = trivia(i, force=True)
            out.append(s if s else " ")
        elif t[0] == "NL":
            out.append(nl if rnd is None or rnd.random() < 0.8 else nl + nl)
    text = "".join(out)
    if final_comment:
        text += "; last comment without line break"
        if collect is not None:
            collect.append(" last comment without line break")
    return text


# ------------------------------------------------------------------ normal form for the AST mirror comparison (both sides)
def norm(o):
    if isinstance(o, list):
        return [norm(x) for x in o]
    if not isinstance(o, dict):
        return o
    k = o.get("k")
    if k == "bytes" and "raw" in o:
        return {"k": "bytes", "bs": o["raw"]}
    if k == "tag" and "tag" in o:
        tg = o["tag"]
        if tg["tk"] == "lit":
            return {"k": "tag", "tagk": "lit", "tn": tg["n"], "t": norm(o["t"])}
        if tg["tk"] == "none":
            return {"k": "tag", "tagk": "any", "tn": [0], "t": norm(o["t"])}
        return {"k": "tag", "tagk": "type", "tname": tg["name"], "t": norm(o["t"])}
    if k == "major" and "c" in o:
        c = o["c"]
        if c["tk"] == "lit":
            return {"k": "major", "mt": o["mt"], "has": True, "num": c["n"]}
        return {"k": "major", "mt": o["mt"], "has": False, "num": [0]}
    if k == "ent" and o["key"]["kk"] == "none" and len(o["t"]["alts"]) == 1 and o["t"]["alts"][0]["k"] == "ref":
        # documented ambiguity: a bare name as a group entry is a "name entry" on both sides
        r = o["t"]["alts"][0]
        return {"k": "name", "lo": o["lo"], "hi": o["hi"], "n": r["n"], "args": norm(r["args"])}
    out = {}
    for kk, v in o.items():
        if kk in ("osp", "oex", "enc"):
            continue
        out[kk] = norm(v)
    if k == "float":
        out = {"k": "float", "bits": o["bits"], "nan": o.get("nan", False)}
    return out
