"""Shared driver machinery: harness build, executor pool, TLC runner, evidence, findings.

Standard library only.  Everything random is derived from VERIF_SEED.
Exit codes of a check: 0 held, 1 violation (with VIOLATION line + replay file), 2 tool error.
"""
import hashlib
import json
import os
import re
import select
import shutil
import signal
import subprocess
import sys
import tempfile
import threading
import time

VERIF = os.path.dirname(os.path.dirname(os.path.abspath(__file__)))
REPO = os.environ.get("VERIF_REPO", "/repo")
SPEC = os.path.join(VERIF, "spec")
HARNESS = os.path.join(VERIF, "harness")
CONFORM = os.path.join(HARNESS, "target", "release", "conform")
EVID = os.path.join(VERIF, "evidence")
REPLAYS = os.path.join(VERIF, "replays")
NPROC = min(16, os.cpu_count() or 4)


class ToolError(Exception):
    pass


def log(*a):
    print("[check]", *a, file=sys.stderr, flush=True)


def seed():
    try:
        return int(os.environ.get("VERIF_SEED", "1"))
    except ValueError:
        return 1


def tier(default="quick"):
    t = os.environ.get("VERIF_TIER", default)
    return t if t in ("quick", "thorough") else default


# ---------------------------------------------------------------- harness build

def build_harness():
    """Rebuild the executor against /repo's current working tree (hooks on)."""
    lock = os.path.join(HARNESS, "Cargo.lock")
    if not os.path.exists(lock):
        shutil.copy(os.path.join(REPO, "Cargo.lock"), lock)
    env = dict(os.environ)
    env["CARGO_NET_OFFLINE"] = "true"
    t0 = time.time()
    # a lock file serialises concurrent checks that rebuild the same target dir
    import fcntl
    with open(os.path.join(HARNESS, ".build.lock"), "w") as lk:
        fcntl.flock(lk, fcntl.LOCK_EX)
        p = subprocess.run(["cargo", "build", "--release", "--offline"], cwd=HARNESS, env=env,
                           stdout=subprocess.PIPE, stderr=subprocess.STDOUT, text=True)
    if p.returncode != 0:
        sys.stderr.write(p.stdout[-6000:])
        raise ToolError("harness build failed")
    log("harness built in %.1fs" % (time.time() - t0))


# ---------------------------------------------------------------- executor pool

def _run_shard(cases, results, offset, per_case_timeout, rlimit_as=None):
    """Feed cases[offset..] to one conform process; restart after crashes/hangs."""
    i = 0
    n = len(cases)
    while i < n:
        def pre():
            import resource
            if rlimit_as:
                resource.setrlimit(resource.RLIMIT_AS, (rlimit_as, rlimit_as))
        proc = subprocess.Popen([CONFORM, "serve"], stdin=subprocess.PIPE, stdout=subprocess.PIPE,
                                stderr=subprocess.DEVNULL, preexec_fn=pre)
        start = i

        def feed(p=proc, s=start):
            try:
                for c in cases[s:]:
                    p.stdin.write((json.dumps(c) + "\n").encode())
                p.stdin.close()
            except (BrokenPipeError, OSError):
                pass
        th = threading.Thread(target=feed, daemon=True)
        th.start()
        fd = proc.stdout.fileno()
        buf = b""
        dead = False
        while i < n and not dead:
            r, _, _ = select.select([fd], [], [], per_case_timeout)
            if not r:
                # hang on case i
                proc.kill()
                proc.wait()
                results[offset + i] = {"id": cases[i].get("id"), "obs": {"hang": per_case_timeout}}
                i += 1
                dead = True
                break
            chunk = os.read(fd, 1 << 16)
            if not chunk:
                rc = proc.wait()
                if i < n:
                    results[offset + i] = {"id": cases[i].get("id"), "obs": {"crash": rc}}
                    i += 1
                dead = True
                break
            buf += chunk
            while b"\n" in buf:
                line, buf = buf.split(b"\n", 1)
                if not line.strip():
                    continue
                try:
                    results[offset + i] = json.loads(line)
                except ValueError:
                    results[offset + i] = {"id": cases[i].get("id"), "obs": {"tool_error": "bad output"}}
                i += 1
        if not dead:
            proc.wait()
        else:
            try:
                proc.kill()
            except OSError:
                pass


def execute(cases, procs=None, per_case_timeout=30, rlimit_as=None):
    """Run every case through the real code; returns list of {'id','obs','us','det'}."""
    if not cases:
        return []
    procs = procs or NPROC
    procs = max(1, min(procs, (len(cases) + 199) // 200))
    results = [None] * len(cases)
    size = (len(cases) + procs - 1) // procs
    ths = []
    for k in range(procs):
        lo = k * size
        hi = min(len(cases), lo + size)
        if lo >= hi:
            break
        th = threading.Thread(target=_run_shard, args=(cases[lo:hi], results, lo, per_case_timeout, rlimit_as))
        th.start()
        ths.append(th)
    for th in ths:
        th.join()
    for i, r in enumerate(results):
        if r is None:
            results[i] = {"id": cases[i].get("id"), "obs": {"tool_error": "no result"}}
    return results


def execute_threads(cases, n=8, timeout=600):
    p = subprocess.run([CONFORM, "threads", str(n)], input="".join(json.dumps(c) + "\n" for c in cases).encode(),
                       stdout=subprocess.PIPE, stderr=subprocess.DEVNULL, timeout=timeout)
    out = []
    for line in p.stdout.splitlines():
        if line.strip():
            out.append(json.loads(line))
    return out, p.returncode


# ---------------------------------------------------------------- TLC

_TLC_CP = "/opt/veriftools/tla/tla2tools.jar:/opt/veriftools/tla/CommunityModules-deps.jar"


class TlcResult:
    def __init__(self):
        self.lines = []        # payload of PrintT("<TAG> <json>") lines: (tag, obj)
        self.generated = 0
        self.distinct = 0
        self.ok = False
        self.raw_tail = ""
        self.wall = 0.0
        self.diameter = 0
        self.coverage = {}
        self.violated = None


def write_cfg(path, spec="Spec", constants=None, invariants=(), postcondition=None, constraint=None,
              view=None, properties=()):
    with open(path, "w") as f:
        f.write("SPECIFICATION %s\n" % spec)
        if constants:
            f.write("CONSTANTS\n")
            for k, v in constants.items():
                f.write("  %s = %s\n" % (k, v))
        for i in invariants:
            f.write("INVARIANT %s\n" % i)
        for i in properties:
            f.write("PROPERTY %s\n" % i)
        if postcondition:
            f.write("POSTCONDITION %s\n" % postcondition)
        if constraint:
            f.write("CONSTRAINT %s\n" % constraint)
        if view:
            f.write("VIEW %s\n" % view)
        f.write("CHECK_DEADLOCK FALSE\n")


def tla_set(xs):
    def one(x):
        if isinstance(x, str):
            return '"%s"' % x
        if isinstance(x, bool):
            return "TRUE" if x else "FALSE"
        return str(x)
    return "{" + ", ".join(one(x) for x in xs) + "}"


def tlc(module, cfg, workdir, env_extra=None, workers=4, timeout=900, simulate=None, depth=None,
        xmx="4g", coverage=False, deque=False, seed_val=None, cont=False):
    """Run TLC; parse PrintT payload lines of the form "TAG {json}"."""
    os.makedirs(workdir, exist_ok=True)
    meta = tempfile.mkdtemp(prefix="md_", dir=workdir)
    jopts = "-Xss1g"
    if deque:
        jopts += " -Dtlc2.tool.queue.IStateQueue=StateDeque"
    env = dict(os.environ)
    env["JAVA_TOOL_OPTIONS"] = jopts
    if env_extra:
        env.update(env_extra)
    cmd = ["timeout", str(timeout), "java", "-XX:+UseParallelGC", "-Xmx" + xmx, "-cp", _TLC_CP, "tlc2.TLC",
           "-workers", str(workers), "-metadir", meta, "-noGenerateSpecTE", "-config", cfg]
    if coverage:
        cmd += ["-coverage", "1"]
    if cont:
        cmd += ["-continue"]
    if simulate:
        cmd += ["-simulate", "num=%d" % simulate]
        if depth:
            cmd += ["-depth", str(depth)]
        if seed_val is not None:
            cmd += ["-seed", str(seed_val)]
    cmd.append(os.path.join(SPEC, module + ".tla"))
    t0 = time.time()
    p = subprocess.Popen(cmd, cwd=SPEC, env=env, stdout=subprocess.PIPE, stderr=subprocess.STDOUT)
    res = TlcResult()
    tail = []
    for raw in p.stdout:
        line = raw.decode("utf-8", "replace").rstrip("\n")
        if re.match(r'^"[A-Z]+ ', line):
            try:
                s = json.loads(line)
                tag, _, body = s.partition(" ")
                res.lines.append((tag, json.loads(body)))
                continue
            except ValueError:
                pass
        m = re.match(r"^(\d+) states generated, (\d+) distinct states found", line)
        if m:
            res.generated = int(m.group(1))
            res.distinct = int(m.group(2))
        m = re.match(r"^The depth of the complete state graph search is (\d+)", line)
        if m:
            res.diameter = int(m.group(1))
        if "Model checking completed. No error has been found" in line or "Finished in" in line and res.violated is None:
            if "No error has been found" in line:
                res.ok = True
        m = re.match(r"^Error: Invariant (\S+) is violated", line)
        if m:
            res.violated = m.group(1)
        if line.startswith("Error:") and res.violated is None and "Invariant" not in line:
            res.violated = res.violated or line
        m = re.match(r"^<(\w+) line \d+, col \d+ to line \d+, col \d+ of module (\w+)>: (\d+):(\d+)", line)
        if m:
            res.coverage[m.group(2) + "!" + m.group(1)] = int(m.group(3))
        tail.append(line)
        if len(tail) > 60:
            tail.pop(0)
    rc = p.wait()
    res.wall = time.time() - t0
    res.raw_tail = "\n".join(tail)
    res.rc = rc
    shutil.rmtree(meta, ignore_errors=True)
    if rc == 124:
        raise ToolError("TLC timeout on %s after %ss" % (module, timeout))
    if simulate and rc in (0,):
        res.ok = True
    return res


def tlc_must(res, what):
    """A TLC run that is used as oracle/generator must end without error."""
    if not res.ok:
        sys.stderr.write(res.raw_tail + "\n")
        raise ToolError("TLC failed: " + what)


# ---------------------------------------------------------------- evidence / findings / violations

def write_evidence(pid, level, coverage, wall, violations, assumptions, t=None):
    os.makedirs(EVID, exist_ok=True)
    ev = {"property_id": pid, "tier": t or tier(), "seed": seed(), "level": level,
          "coverage": coverage, "assumptions": assumptions, "wall_s": round(wall, 2),
          "violations": violations}
    with open(os.path.join(EVID, pid + ".json"), "w") as f:
        json.dump(ev, f, indent=1, sort_keys=True)
        f.write("\n")


def load_findings(pid):
    path = os.path.join(VERIF, "known_findings.json")
    if not os.path.exists(path):
        return []
    with open(path) as f:
        data = json.load(f)
    return [x for x in data.get("findings", []) if (x.get("property") == pid or pid in x.get("also", [])) and x.get("status", "open") == "open"]


def save_replay(pid, payload):
    d = os.path.join(REPLAYS, pid)
    os.makedirs(d, exist_ok=True)
    blob = json.dumps(payload, sort_keys=True)
    h = hashlib.sha1(blob.encode()).hexdigest()[:12]
    path = os.path.join(d, h + ".json")
    with open(path, "w") as f:
        json.dump(payload, f, indent=1, sort_keys=True)
        f.write("\n")
    return os.path.relpath(path, VERIF)


class Outcome:
    """Collects violations / known findings of one check run and ends the process."""

    def __init__(self, pid):
        self.pid = pid
        self.violations = []       # (signature, payload)
        self.known = {}            # finding id -> count
        self.notes = []

    def violation(self, sig, payload):
        self.violations.append((sig, payload))

    def known_hit(self, fid, n=1):
        self.known[fid] = self.known.get(fid, 0) + n

    def finish(self, findings):
        for f in findings:
            fid = f["id"]
            if self.known.get(fid):
                print("KNOWN-FINDING: property=%s %s [%s; %d case(s) this run]" % (self.pid, f["what"], fid, self.known[fid]))
        if self.violations:
            seen = set()
            for sig, payload in self.violations:
                if sig in seen:
                    continue
                seen.add(sig)
                if len(seen) > 20:
                    break
                path = save_replay(self.pid, payload)
                print("VIOLATION property=%s replay=%s" % (self.pid, path))
                log("violation signature:", sig)
            sys.stdout.flush()
            return 1
        return 0


def hexs(bs):
    return "".join("%02x" % b for b in bs)


def workdir(pid):
    d = os.path.join(VERIF, "work", pid)
    os.makedirs(d, exist_ok=True)
    return d


def rerun_witnesses(out, findings, default_fmt="json"):
    """listed findings that are not modelled by a deviation flag are identified by their witness: re-run it and
    print KNOWN-FINDING only while the real code still shows the recorded behaviour"""
    for f in findings:
        w = f.get("witness")
        if w and "text" in w and not f.get("dev"):
            r = execute([{"id": 0, "op": "parse", "cddl": w["text"]}])[0]
            if ("accepted" if r["obs"].get("ok") else "rejected") == w["observed"]:
                out.known_hit(f["id"])
            continue
        if not w or "cddl" not in w or f.get("dev"):
            continue
        fmt = w.get("fmt", default_fmt)
        op = {"id": 0, "op": "validate_json" if fmt == "json" else "validate_cbor", "cddl": w["cddl"]}
        op["json" if fmt == "json" else "hex"] = w["doc"]
        r = execute([op])[0]
        k = r["obs"].get("kind")
        obs = "T" if k == "ok" else "F" if k == "validation" else None
        if obs == w["observed"]:
            out.known_hit(f["id"])
