"""C20 - ParentVisitor returns the syntactic parent of every AST node.

For every accepted generated document (biased to repeated identical sub-expressions: 'a = b / b', duplicated choices) the
executor builds the parent index, walks the AST in the containment relation of the crate's impl_parent! table and asks the
parent of every node; the answer is mapped back to a path by pointer identity.  TLC (Trace_Tree, AstTree!ParentPath) requires:
the root has no parent, every other node has one, and it is the node at the path without its last step."""
import collections
import json
import random
import time

import vlib
from checks import tree_common as T

PID = "C20"


def run():
    t0 = time.time()
    t = vlib.tier()
    rnd = random.Random(vlib.seed() * 2011 + 20)
    wd = vlib.workdir(PID)
    findings = vlib.load_findings(PID)
    out = vlib.Outcome(PID)
    n = 160 if t == "quick" else 4000
    texts = [x for x in T.docs_for(rnd, n, repeats=True) if len(x) <= 400]
    texts += ["a = b / b\nb = int\n", "a = [1, 1]\n", "a = { x: int, x: int }\n", "a = [ * b, * b ] / [ * b ]\nb = tstr\n", "a<T> = [T, T]\nc = a<int> / a<int>\n",
              "a = (b / b) / (b / b)\nb = 1\n", "g = ( x: int, x: int )\nr = [g, g]\n", "a = b .size 3 / b .size 3\nb = tstr\n",
              # identical nodes in DIFFERENT rules: same parameter names, same operators, same occurrences, same member keys, same values
              "s = [f<int>, g<tstr>]\nf<t> = [t]\ng<t> = { v: t }\n", "p<K, V> = { * K => V }\nq<K, V> = [K, V]\nr = p<tstr, int> / q<tstr, int>\n",
              "a = [* int] .size 2\nb = [* int] .size 2\n", "a = { ? x: 1..3 }\nb = { ? x: 1..3 }\nc = [2*3 a, 2*3 b]\n",
              "gg<t> = (t, t)\nhh<t> = (t // t)\nk = [gg<nil>, hh<nil>]\n", "a = #6.1(int) / #6.1(int)\nb = &(x: 1, x: 1)\nc = ~a / ~a\n"]
    res = vlib.execute([{"id": i, "op": "parents", "cddl": tx} for i, tx in enumerate(texts)], per_case_timeout=60)
    events, metas = [], []
    docs_ok = 0
    for tx, r in zip(texts, res):
        o = r["obs"]
        if "ok" not in o:
            out.violation("outcome:" + sorted(o)[0], {"property": PID, "cddl": tx, "observed": o})
            continue
        if not o["ok"]:
            continue
        if not o.get("built"):
            out.violation("index-not-built", {"property": PID, "cddl": tx, "observed": o, "spec": "building the parent index succeeds for every accepted document"})
            continue
        docs_ok += 1
        for nd in o["nodes"]:
            events.append({"ev": "Parent", "path": nd["path"], "kind": nd["kind"], "none": nd["none"], "got": nd["got"], "gotkind": nd["gotkind"]})
            metas.append(tx)
    verdicts = T.chunked_judge(events, wd, 6000)
    bad_docs = collections.OrderedDict()
    for i, v in verdicts.items():
        bad_docs.setdefault(metas[i], []).append((events[i], v))
    for tx, lst in bad_docs.items():
        e, v = lst[0]
        out.violation(v, {"property": PID, "cddl": tx, "verdict": v, "node": e, "more": len(lst) - 1, "spec": "AstTree!ParentPath"})
    wall = time.time() - t0
    kinds = collections.Counter(e["kind"] for e in events)
    cov = {"states": len(events) + 1, "transitions": len(events), "traces_validated_against_impl": len(events), "evaluations": len(events),
           "distinct_nontrivial": len(events) - len(verdicts),
           "rule": "one Parent event per AST node (22 node kinds of the crate's impl_parent! table) of accepted generated documents, biased to repeated identical sub-expressions; "
                   "the answer of ParentVisitor is mapped to a path by pointer identity and TLC requires got = ParentPath(path). Non-trivial/distinct = nodes whose reported parent is the containing node.",
           "samples": [{"cddl": texts[-8], "nodes": [e for e, m in zip(events, metas) if m == texts[-8]][:6]}], "exhaustive": False, "documents": docs_ok,
           "nodes_by_kind": dict(kinds), "checker_cmd": "tlc Trace_Tree"}
    if docs_ok < 50 or len(events) < 2000:
        raise vlib.ToolError("vacuity gate docs=%d nodes=%d" % (docs_ok, len(events)))
    vlib.write_evidence(PID, "model_checking", cov, wall, len(out.violations),
                        ["the containment relation walked by the executor is the one of the crate's impl_parent! table", "Value and Occur nodes are held by value in CDDLType and are not queried"])
    return out.finish(findings)


def replay(path):
    p = json.load(open(path))
    r = vlib.execute([{"id": 0, "op": "parents", "cddl": p["cddl"]}])[0]["obs"]
    bad = [n for n in r.get("nodes", []) if not ((n["none"] and n["path"] == []) or (not n["none"] and n["got"] == n["path"][:-1]))]
    print(p["cddl"], "->", len(bad), "nodes with a wrong parent", bad[:3])
    if bad or not r.get("built"):
        print("VIOLATION property=%s replay=%s" % (PID, path))
        return 1
    return 0
