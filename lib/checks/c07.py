"""C07 - literals denote exactly the value the RFC assigns, or the document is rejected.

spec -> impl : MC_Lit enumerates every string over an 11-symbol number alphabet up to length 4 with the value
               Literals!NumberLit assigns (or reject); each is parsed as 'a = <s>' by the real parser.
impl -> spec : spellings of every literal class (radix/negative/boundary integers, exact floats incl. hexfloats, text with
               every escape form, byte strings in the three flavours with whitespace/comments/alphabets/padding) are placed at
               every syntactic position (type, member key ':' and '=>', range bounds, occurrence bounds, tag and simple-value
               numbers, control argument, generic argument, array entry); the value the real parser stored is projected and
               Trace_Lit compares it with Literals!LitResult."""
import json
import os
import random
import time

import semcheck
import vlib

PID = "C07"


def path_get(ast, path):
    o = ast
    for p in path:
        try:
            o = o[p]
        except (KeyError, IndexError, TypeError):
            return None
    return o


def norm_value(v):
    if v is None:
        return None
    k = v.get("k")
    if k == "int":
        return {"k": "int", "neg": v["neg"], "mag": v["mag"]}
    if k == "float":
        return {"k": "float", "bits": v["bits"], "nan": v["nan"]}
    if k == "text":
        return {"k": "text", "cp": v["cp"]}
    if k == "bytes":
        return {"k": "bytes", "bs": v["raw"]}
    return None


def nat_bytes_of_decimal(s):
    n = int(s)
    out = []
    if n == 0:
        return [0]
    while n:
        out.append(n & 255)
        n >>= 8
    return out[::-1]


def lit_of_t1(t):
    return norm_value(t["v"]) if isinstance(t, dict) and t.get("k") == "lit" else None


ROOT_T = [0, "t", "alts", 0]
# position -> (template, extractor(ast) -> value or None)
POS_NUM = {
    "type": ("a = {L}", lambda a: lit_of_t1(path_get(a, ROOT_T))),
    "key-colon": ("a = {{ {L}: int }}", lambda a: norm_value((path_get(a, ROOT_T + ["g", "galts", 0, 0, "key"]) or {}).get("v"))
                  if (path_get(a, ROOT_T + ["g", "galts", 0, 0, "key"]) or {}).get("kk") == "val" else None),
    "key-arrow": ("a = {{ {L} => int }}", lambda a: lit_of_t1((path_get(a, ROOT_T + ["g", "galts", 0, 0, "key"]) or {}).get("t"))),
    "range-lo": ("a = {L}..{L}", lambda a: lit_of_t1((path_get(a, ROOT_T) or {}).get("lo"))),
    "range-hi": ("a = {L}...{L}", lambda a: lit_of_t1((path_get(a, ROOT_T) or {}).get("hi"))),
    "ctl-arg": ("a = int .eq {L}", lambda a: lit_of_t1((path_get(a, ROOT_T) or {}).get("arg"))),
    "array-entry": ("a = [2* {L}]", lambda a: lit_of_t1(path_get(a, ROOT_T + ["g", "galts", 0, 0, "t", "alts", 0]))),
    "generic-arg": ("a = p<{L}>\np<T> = T", lambda a: lit_of_t1(path_get(a, ROOT_T + ["args", 0]))),
    "map-value": ("a = {{ k: {L} }}", lambda a: lit_of_t1(path_get(a, ROOT_T + ["g", "galts", 0, 0, "t", "alts", 0]))),
}


def occ(a, which):
    e = path_get(a, ROOT_T + ["g", "galts", 0, 0])
    if not e or not e.get("oex") or e["oex"].get(which) is None:
        return None
    return {"k": "int", "neg": False, "mag": nat_bytes_of_decimal(e["oex"][which])}


def tagn(a):
    t = path_get(a, ROOT_T)
    if not t or t.get("k") != "tag" or t["tag"].get("tk") != "lit":
        return None
    return {"k": "int", "neg": False, "mag": t["tag"]["n"]}


def simplen(a):
    t = path_get(a, ROOT_T)
    if not t or t.get("k") != "major" or t["c"].get("tk") != "lit":
        return None
    return {"k": "int", "neg": False, "mag": t["c"]["n"]}


POS_UINT = {"occ-lo": ("a = [{L}* int]", lambda a: occ(a, "lo")), "occ-hi": ("a = [0*{L} int]", lambda a: occ(a, "hi")),
            "tag": ("a = #6.{L}(int)", tagn), "simple": ("a = #7.{L}", simplen), "major0": ("a = #0.{L}", simplen)}
POS_TEXT = {k: POS_NUM[k] for k in ("type", "key-colon", "key-arrow", "array-entry", "map-value", "generic-arg")}
POS_TEXT["ctl-arg"] = ("a = tstr .eq {L}", POS_NUM["ctl-arg"][1])
POS_BYTES = {k: POS_NUM[k] for k in ("type", "key-arrow", "array-entry", "map-value")}
POS_BYTES["ctl-arg"] = ("a = bstr .eq {L}", POS_NUM["ctl-arg"][1])


def int_spellings(rnd, n_random):
    out = set()
    bounds = [0, 1, 23, 24, 255, 256, 65535, 65536, 2**31 - 1, 2**31, 2**32 - 1, 2**32, 2**53, 2**63 - 1, 2**63, 2**63 + 1, 2**64 - 1, 2**64, 2**64 + 1, 2**65,
              10**19, 10**20, 10**30]
    for b in bounds:
        for neg in ("", "-"):
            out.add(neg + str(b))
            out.add(neg + "0x%x" % b)
            out.add(neg + "0X%X" % b)
            out.add(neg + "0b" + bin(b)[2:])
            out.add(neg + "0B" + bin(b)[2:])
    out |= {"00", "01", "-01", "0x", "0b", "0b2", "0xg", "-", "--1", "+1", "1_000", "0x-1", "0b102", "0o17", "1.", ".5", "1e", "1e+", "0x1.8", "0x1p", "0x.8p1"}
    for _ in range(n_random):
        r = rnd.random()
        if r < 0.4:
            out.add(rnd.choice(["", "-"]) + str(rnd.randrange(0, 10 ** rnd.choice([1, 3, 9, 18, 19, 20, 21]))))
        elif r < 0.7:
            out.add(rnd.choice(["", "-"]) + rnd.choice(["0x", "0X"]) + "".join(rnd.choice("0123456789abcdefABCDEF") for _ in range(rnd.choice([1, 2, 8, 15, 16, 17]))))
        else:
            out.add(rnd.choice(["", "-"]) + rnd.choice(["0b", "0B"]) + "".join(rnd.choice("01") for _ in range(rnd.choice([1, 8, 63, 64, 65]))))
    return sorted(out)


FLOATS = ["1.5", "0.25", "-2.75", "1e2", "1.5e1", "25e-2", "1.0", "1e0", "-0.0", "0.0", "1E5", "1e+5", "1e-2", "100.0", "0.5e1", "12.5", "-0.125", "3.0e0", "1.25e2", "125e-3",
          "0x1.8p1", "-0x1p-2", "0X1P4", "0x1p4", "0x10p0", "0xa.8p0", "0x1.8p+3", "0x0p0", "-0x0.8p1", "0x1.fp10", "1e400", "1e309", "-1e999", "123456789e-9", "1e308", "1.7976931348623157e308",
          "5e-324", "1e-400", "0.1", "1.1", "3.14", "1e5", "1e22", "9007199254740993.0"]

TEXTS = ['"a"', '""', '"a b"', '"é"', '"€"', '"\U0001F600"', r'"\""', r'"\\"', r'"\/"', r'"\b\f\n\r\t"', r'"A"', r'"é"', r'"€"', r'"😀"',
         r'"😀"', r'"\u{41}"', r'"\u{1F600}"', r'"\u{0041}"', r'"\u{000000041}"', r'"\u{10FFFF}"', r'"\u{0}"', r'"x\u{110000}y"', r'"p\uD800q"', r'"\uDC00"',
         r'"\uD800A"', r'"\u{D800}"', r'"\u{DFFF}"', r'"\u{}"', r'"\u{g}"', r'"\u12"', r'"\x41"', r'"\a"', r'"\'"', r'"a\u0000b"', r'"￿"', r'"퟿"',
         r'"\u{d7ff}"', r'"􏿿"', r'"\uDBFF\uDBFF"', '"q;c"', '"tab\\there"', r'"\u{1f600}\u{1F600}"']

# raw characters outside SCHAR (control characters, DEL, above U+10FFFD) and the raw boundary characters inside it
TEXTS += ['"a\tb"', '"a\nb"', '"\x00"', '"\x1f"', '"\x7f"', '"\x80"', '"\x9f"', '"\xa0"', '"\U0010fffd"', '"\U0010fffe"', '"x\U0010ffffy"', '" "', '"~"']
# systematic escape boundaries: every surrogate pair over the boundary code units, lone halves, BMP and \\u{...} boundaries
for _hi in ("D800", "D801", "D83D", "dbfe", "DBFF"):
    for _lo in ("DC00", "DC01", "de00", "DFFE", "DFFF", "DBFF", "E000", "0041"):
        TEXTS.append('"\\u%s\\u%s"' % (_hi, _lo))
        TEXTS.append('"x\\u%s\\u%sy"' % (_hi, _lo))
for _u in ("0000", "0001", "001F", "0020", "007F", "0080", "07FF", "0800", "D7FF", "E000", "FFFD", "FFFE", "FFFF", "00e9", "DC00", "DFFF", "D800", "DBFF"):
    TEXTS.append('"\\u%s"' % _u)
    TEXTS.append('"a\\u%sb"' % _u)
for _u in ("0", "7F", "80", "7FF", "800", "D7FF", "D800", "DBFF", "DC00", "DFFF", "E000", "FFFF", "10000", "1FFFF", "10FFFF", "110000", "00010FFFF", "0010ffff", "FFFFFF", "FFFFFFFFF"):
    TEXTS.append('"\\u{%s}"' % _u)
    TEXTS.append('"a\\u{%s}b"' % _u)

BYTES = ["''", "'a'", "'abc'", "'é€'", "'q;c'", "h''", "h'00'", "h'0102'", "h'01 02'", "h'0 1 0 2'", "h'01\n02'", "h'01 ; c\n02'", "h'012'", "h'0g'", "h'AbCd'", "h'ab cd ef'",
         "H'01'", "h'01;trailing comment'", "b64''", "b64'AQI='", "b64'AQI'", "b64'AQ=='", "b64'AQ'", "b64'AQID'", "b64'A Q\nI D'", "b64'AQ ; c\nID'", "b64'-_8='", "b64'+/8='",
         "b64'+_8='", "b64'-_8'", "b64'AQI=='", "b64'A'", "b64'AQ='", "b64'AQI=x'", "b64'=AQI'", "b64'AR=='", "b64'AQJ='", "b64'!!!!'", "B64'AQI='", "b64'____'", "b64'////'",
         "b64'AAAA AAAA'", "b64'/+8='", "b64'_-8='"]


def cps(s):
    return [ord(c) for c in s]


def run():
    t0 = time.time()
    t = vlib.tier()
    rnd = random.Random(vlib.seed() * 2003 + 7)
    wd = vlib.workdir(PID)
    findings = vlib.load_findings(PID)
    out = vlib.Outcome(PID)
    # ---- E: number alphabet strings from TLC
    cfg = os.path.join(wd, "MC_Lit.cfg")
    vlib.write_cfg(cfg, constants={"Alpha": "{48, 49, 57, 97, 70, 120, 98, 45, 46, 101, 112}" if t == "quick" else "{48, 49, 55, 57, 97, 70, 120, 88, 98, 45, 46, 101, 69, 112, 43}",
                                   "MaxLen": 4}, invariants=["Emit"])
    res = vlib.tlc("MC_Lit", cfg, wd, workers=8, timeout=1800)
    vlib.tlc_must(res, "MC_Lit")
    gen = [o for tag, o in res.lines if tag == "R"]
    if len(gen) != res.distinct:
        raise vlib.ToolError("replay records lost")
    cases = []      # (cls, spelling string, position name, template, extractor)
    for g in gen:
        s = "".join(chr(c) for c in g["cs"])
        cases.append(("num", s, "type") + POS_NUM["type"])
    nscope = len(cases)
    # ---- spellings x positions
    for s in int_spellings(rnd, 60 if t == "quick" else 3000):
        for pos, (tpl, ex) in POS_NUM.items():
            cases.append(("num", s, pos, tpl, ex))
        if not s.startswith("-"):
            for pos, (tpl, ex) in POS_UINT.items():
                cases.append(("uint", s, pos, tpl, ex))
    for s in FLOATS:
        for pos, (tpl, ex) in POS_NUM.items():
            if pos != "key-colon" or True:
                cases.append(("num", s, pos, tpl, ex))
    for s in TEXTS:
        for pos, (tpl, ex) in POS_TEXT.items():
            cases.append(("text", s, pos, tpl, ex))
    for s in BYTES:
        for pos, (tpl, ex) in POS_BYTES.items():
            cases.append(("bytes", s, pos, tpl, ex))
    ops = [{"id": i, "op": "parse", "ast": True, "cddl": tpl.replace("{{", "\x01").replace("}}", "\x02").replace("{L}", s).replace("\x01", "{").replace("\x02", "}") + "\n"}
           for i, (cls, s, pos, tpl, ex) in enumerate(cases)]
    results = vlib.execute(ops)
    events, metas = [], []
    for (cls, s, pos, tpl, ex), o, r in zip(cases, ops, results):
        obs = r["obs"]
        if "ok" not in obs:
            out.violation("outcome:" + sorted(obs)[0], {"property": PID, "cddl": o["cddl"], "observed": obs})
            continue
        if not obs["ok"]:
            eo = {"ok": False, "lit": False}
        else:
            v = ex(obs["ast"])
            want = {"num": ("int", "float"), "uint": ("int",), "text": ("text",), "bytes": ("bytes",)}[cls]
            if v is not None and v["k"] in want:
                eo = {"ok": True, "lit": True, "v": v}
            else:
                eo = {"ok": True, "lit": False}
        events.append({"cls": cls, "cs": cps(s), "obs": eo, "open": pos in ("key-colon", "key-arrow", "array-entry", "map-value", "occ-lo", "occ-hi")})
        metas.append({"class": cls, "spelling": s, "position": pos, "cddl": o["cddl"], "observed": eo,
                      "error": (obs.get("err") or {}).get("short") if not obs["ok"] else None})
    verdicts = semcheck.judge(events, wd, [], module="Trace_Lit", chunk=4000)
    stats = {"value_ok": 0, "reject_ok": 0, "either": 0}
    samples = []
    known_sigs = {f["sig"]: f["id"] for f in findings if f.get("sig")}
    for i, meta in enumerate(metas):
        v = verdicts.get(i, "ok")
        if v == "ok":
            stats["value_ok" if meta["observed"].get("lit") else "reject_ok"] += 1
            if len(samples) < 8 and meta["observed"].get("lit") and i >= nscope and rnd.random() < 0.01:
                samples.append({k: meta[k] for k in ("class", "spelling", "position", "observed")})
        elif v == "either":
            stats["either"] += 1
        else:
            sig = "%s:%s:%s" % (meta["class"], v, classify(meta["class"], meta["spelling"]))
            if sig in known_sigs:
                out.known_hit(known_sigs[sig])
            else:
                out.violation(sig + ":" + meta["position"], dict(meta, property=PID, verdict=v, sig=sig, spec="Literals!LitResult"))
    wall = time.time() - t0
    cov = {"states": res.distinct, "transitions": res.generated, "traces_validated_against_impl": len(events), "evaluations": len(events),
           "distinct_nontrivial": stats["value_ok"] + stats["reject_ok"],
           "rule": "TLC enumerates every string over the number alphabet up to length 4 (one state each) with the value of Literals!NumberLit; integer spellings "
                   "(boundaries 2^31..2^65 in decimal/0x/0X/0b/0B, negative, malformed), exact floats and hexfloats, text with every escape form, byte strings in 3 flavours "
                   "are placed at 9+5 syntactic positions; the stored AST value is projected and judged by Trace_Lit. Non-trivial/distinct = events where the "
                   "specification determines value-or-reject and the implementation agrees.",
           "samples": samples or [{"note": "none"}], "exhaustive": True, "agree_value": stats["value_ok"], "agree_reject": stats["reject_ok"], "either": stats["either"],
           "known_finding_hits": out.known, "checker_cmd": "tlc MC_Lit ; tlc Trace_Lit"}
    if stats["value_ok"] < 100 or stats["reject_ok"] < 100:
        raise vlib.ToolError("vacuity gate %s" % stats)
    vlib.write_evidence(PID, "model_checking", cov, wall, len(out.violations),
                        ["correct rounding of decimal floats that are not exactly representable is outside the specification ('either')",
                         "non-canonical trailing bits in base64 are 'either' (RFC 4648 3.5)", "'...' byte strings with escapes are outside the generated fragment",
                         "usize/isize are 64-bit"])
    return out.finish(findings)


def classify(cls, s):
    """coarse spelling class used in finding signatures"""
    if cls == "text":
        if "\\u{" in s:
            return "u-brace"
        if "\\uD" in s or "\\ud" in s:
            return "surrogate"
        return "text"
    if cls == "bytes":
        return s.split("'")[0].lower() or "utf8"
    if cls in ("num", "uint"):
        b = s.lstrip("-").lower()
        if "p" in b and b.startswith("0x"):
            return "hexfloat"
        if b.startswith("0x"):
            return "hex"
        if b.startswith("0b"):
            return "bin"
        if any(c in b for c in ".e"):
            return "float"
        return "dec"
    return cls


def replay(path):
    with open(path) as f:
        p = json.load(f)
    r = vlib.execute([{"id": 0, "op": "parse", "ast": True, "cddl": p["cddl"]}])[0]["obs"]
    print(p["cddl"], "->", {k: r.get(k) for k in ("ok", "err")}, json.dumps(r.get("ast"))[:300])
    print("recorded:", p.get("verdict"), p.get("observed"))
    print("VIOLATION property=%s replay=%s" % (PID, path))
    return 1
