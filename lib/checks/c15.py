"""C15 - source positions in the AST and in parse errors are accurate.

The span tree of every accepted document (generated with multi-byte UTF-8 in strings and comments, CRLF, tabs) is projected
from the crate's AST and TLC evaluates the AstTree invariants on it (bounds, character boundaries, 1-based line of the
start, child inside parent, siblings ordered without overlap, identifier span = its text with socket prefix, rule span starts
at its name).  For rejected documents (single-character edits, truncations, errors at end of input) the reported position is
checked: inside the input on a character boundary, line and column those of the index, range not inverted."""
import collections
import json
import random
import time

import vlib
from checks import tree_common as T

PID = "C15"


def run():
    t0 = time.time()
    t = vlib.tier()
    rnd = random.Random(vlib.seed() * 1511 + 15)
    wd = vlib.workdir(PID)
    findings = vlib.load_findings(PID)
    fsig = {f["sig"]: f["id"] for f in findings if f.get("sig")}
    out = vlib.Outcome(PID)
    n = 260 if t == "quick" else 6000
    texts = [x for x in T.docs_for(rnd, n) if len(x) <= 420]
    texts += ["a = \"é€\" / b ; é\nb = [ * tstr ]\r\n", "$$g //= ( x: int )\r\n$s /= \"😀\"\n", "a<T> = { ? \"k\" ^ => T } ; c", "\n\n  a = 1\n"]
    res = vlib.execute([{"id": i, "op": "parse", "spans": True, "cddl": tx} for i, tx in enumerate(texts)])
    events, metas = [], []
    for tx, r in zip(texts, res):
        o = r["obs"]
        if "ok" not in o:
            out.violation("outcome:" + sorted(o)[0], {"property": PID, "cddl": tx, "observed": o})
            continue
        if o["ok"]:
            events.append({"ev": "Spans", "cs": T.cps(tx), "tree": o["spans"]})
            metas.append({"cddl": tx, "kind": "spans"})
    n_span = len(events)
    # rejected documents: mutants, truncations
    neg = []
    for tx in texts[: n]:
        if len(tx) < 3 or len(tx) > 200:
            continue
        s = list(tx)
        x = rnd.random()
        pos = rnd.randrange(len(s))
        if x < 0.3:
            neg.append(tx[:pos])                      # truncation: error at end of input
        elif x < 0.6:
            s[pos] = rnd.choice(T.ALPH)
            neg.append("".join(s))
        elif x < 0.8:
            s.insert(pos, rnd.choice(T.ALPH))
            neg.append("".join(s))
        else:
            del s[pos]
            neg.append("".join(s))
    neg += ["a = \"é€\" / \n", "a = [ é ]", "é", "a = 1\r\nb = \r\n", "a = 1\nb = 2\na = 3\n", "a = \"\\uD800\"\n", "a = 1e999", "; é\na = [", "a = {\n  \"é\": \n}\n"]
    nres = vlib.execute([{"id": i, "op": "parse", "cddl": tx} for i, tx in enumerate(neg)])
    n_err = 0
    for tx, r in zip(neg, nres):
        o = r["obs"]
        if "ok" not in o:
            out.violation("outcome:" + sorted(o)[0], {"property": PID, "cddl": tx, "observed": o})
            continue
        if not o["ok"] and o["err"].get("class") == "parser":
            e = o["err"]
            events.append({"ev": "Err", "cs": T.cps(tx), "index": e["index"], "line": e["line"], "column": e["column"], "r0": e["r0"], "r1": e["r1"]})
            metas.append({"cddl": tx, "kind": "error-position", "reported": {k: e[k] for k in ("index", "line", "column", "r0", "r1", "short")}})
            n_err += 1
    verdicts = T.chunked_judge(events, wd, 60)
    ok = 0
    stats = collections.Counter()
    samples = []
    for i, m in enumerate(metas):
        v = verdicts.get(i, "ok")
        if v == "ok":
            ok += 1
            if len(samples) < 3 and m["kind"] == "error-position" and len(m["cddl"]) < 80:
                samples.append(m)
            continue
        sig = v
        stats[sig] += 1
        if sig in fsig:
            out.known_hit(fsig[sig])
        else:
            out.violation(sig, dict(m, property=PID, verdict=v, spec="AstTree!Check / AstTree!ErrOk"))
    wall = time.time() - t0
    cov = {"states": len(events) + 1, "transitions": len(events), "traces_validated_against_impl": len(events), "evaluations": len(texts) + len(neg),
           "distinct_nontrivial": ok, "rule": "span trees of accepted generated documents (multi-byte UTF-8 in strings/comments, CRLF, tabs, comments) and positions of parse errors "
           "on single-character edits / truncations of them; TLC evaluates AstTree!Check on every node of every tree and AstTree!ErrOk on every error. Non-trivial/distinct = trees / errors that satisfy all invariants.",
           "samples": samples or [{"note": "none"}], "exhaustive": False, "span_trees": n_span, "error_positions": n_err, "finding_signatures": dict(stats),
           "known_finding_hits": out.known, "checker_cmd": "tlc Trace_Tree"}
    if n_span < 100 or n_err < 50:
        raise vlib.ToolError("vacuity gate spans=%d errs=%d" % (n_span, n_err))
    vlib.write_evidence(PID, "model_checking", cov, wall, len(out.violations),
                        ["spans are UTF-8 byte offsets, lines 1-based, columns counted in characters from the last line feed",
                         "the span tree is the executor's projection of the span fields of the crate's AST"])
    return out.finish(findings)


def replay(path):
    p = json.load(open(path))
    wd = vlib.workdir(PID)
    r = vlib.execute([{"id": 0, "op": "parse", "spans": True, "cddl": p["cddl"]}])[0]["obs"]
    if r.get("ok"):
        ev = [{"ev": "Spans", "cs": T.cps(p["cddl"]), "tree": r["spans"]}]
    else:
        e = r["err"]
        ev = [{"ev": "Err", "cs": T.cps(p["cddl"]), "index": e["index"], "line": e["line"], "column": e["column"], "r0": e["r0"], "r1": e["r1"]}]
        print("error position:", {k: e[k] for k in ("index", "line", "column", "r0", "r1")})
    v = T.chunked_judge(ev, wd, 10)
    print(repr(p["cddl"]), "->", v.get(0, "ok"))
    if v.get(0, "ok") != "ok":
        print("VIOLATION property=%s replay=%s" % (PID, path))
        return 1
    return 0
