"""C03 - the parser accepts exactly the RFC 8610/9682 grammar and mirrors it in the AST.

positive : documents are generated from the abstract syntax (lib/syngen.py: every Type2 form, member-key form, occurrence,
           operator, registered control name, generics, sockets) and rendered with random trivia (spaces, tabs, LF/CRLF,
           comments, final comment without line break, trailing commas) and literal spellings.  TLC (Trace_Syntax /
           Grammar!Derivable, an all-paths recogniser over the ABNF as data) must find the text derivable - the generator is
           tied to the ABNF, not to pest - the real parser must accept it, and the projected AST must equal the generated one.
negative : single-character edits of accepted texts and short strings over a CDDL alphabet are parsed by the real parser and
           judged by TLC: accepted => derivable, rejected with a grammar-level error => not derivable."""
import collections
import json
import os
import random
import time

import semcheck
import syngen
import vlib

PID = "C03"
ALPH = "abTx09 =/,:;()[]{}<>#.*+?~&^-\"'$\n"
SEMANTIC = ("already defined", "Invalid", "out of range", "mixes")


def err_class(obs):
    sh = (obs.get("err") or {}).get("short", "")
    return "semantic" if any(k in sh for k in SEMANTIC) else "syntax"


def cps(t):
    return [ord(c) for c in t]


def ws_runs(t):
    runs, i = [], 0
    while i < len(t):
        if t[i] in " \t\r\n":
            j = i
            while j < len(t) and t[j] in " \t\r\n":
                j += 1
            runs.append((i, j))
            i = j
        else:
            i += 1
    return runs


def classify(bad, texts, wd, fids_all=frozenset()):
    """bad: list of (index, verdict). Returns {index: finding id} for mismatches explained by a listed leniency class."""
    known = {}
    for i, v in bad:
        if i not in known and v == "bad:accepted-not-derivable":
            import re
            # a horizontal tab inside a comment: PCHAR excludes %x09, the parser takes any character up to the line end
            if re.search(r";[^\n]*\t", texts[i]):
                known[i] = "C03-tab-in-comment"
    # K1: accepted although not derivable, but a derivable text with the same AST differs only by whitespace runs (pest implicit whitespace)
    cand, owner = [], []
    for i, v in bad:
        if i in known:
            continue
        t = texts[i]
        if v == "bad:accepted-not-derivable":
            runs = ws_runs(t)
            # whitespace runs next to the characters of compound tokens first
            runs.sort(key=lambda ab: 0 if (ab[0] > 0 and t[ab[0] - 1] in ".#<&~*0123456789") or (ab[1] < len(t) and t[ab[1]] in ".<(*0123456789") else 1)
            vs = [t[:a] + t[b:] for a, b in runs]
            for x in range(len(runs)):
                for y in range(x + 1, min(len(runs), x + 6)):
                    (a, b), (c, d) = runs[x], runs[y]
                    vs.append(t[:a] + t[b:c] + t[d:])
        elif v == "bad:rejected-derivable":
            # K2: a derivable reading exists only with a token boundary the PEG's longest match does not take: one inserted blank makes the parser agree
            vs = [t[:p] + " " + t[p:] for p in range(1, len(t))]
            # ... or two blanks close to each other ("#6-1(" = "#6 -1 (")
            vs += [t[:p] + " " + t[p:q] + " " + t[q:] for p in range(1, len(t)) for q in range(p + 1, min(len(t), p + 5))]
            # K3: a group rule whose entry is not parenthesised: 'g = a: int' / 'g = 2* (x)'  ->  'g = ( a: int )'
            lines = t.split("\n")
            for li, ln in enumerate(lines):
                if "=" in ln:
                    q = ln.index("=") + 1
                    while q < len(ln) and ln[q] in "=/":
                        q += 1
                    vs.insert(0, "\n".join(lines[:li] + [ln[:q] + " ( " + ln[q:] + " )"] + lines[li + 1:]) + "\x00K3")
                    if "*" in ln[q:]:
                        # 'a = 9*0' is the group rule 'a = 9* 0': the occurrence needs its blank once the entry stands in parentheses
                        vs.insert(0, "\n".join(lines[:li] + [ln[:q] + " ( " + ln[q:].replace("*", "* ", 1) + " )"] + lines[li + 1:]) + "\x00K3")
            # K4: a '$$' socket name where the PEG wants a type name (or '$' where it wants a group name): a name is an id either
            # way in the ABNF; the variant with the other prefix at that one place is derivable and accepted
            p_ = t.find("$$")
            while p_ >= 0:
                vs.insert(0, t[:p_] + "$" + t[p_ + 2:] + "\x00K4")
                p_ = t.find("$$", p_ + 2)
        else:
            continue
        for s in vs[:600]:
            cand.append(s)
            owner.append(i)
    k3 = [s.endswith("\x00K3") for s in cand]
    k4 = [s.endswith("\x00K4") for s in cand]
    cand = [s[:-3] if (f or g) else s for s, f, g in zip(cand, k3, k4)]
    k3set = {s for s, f in zip(cand, k3) if f}
    k4set = {s for s, f in zip(cand, k4) if f}
    if not cand:
        return known
    ops = [{"id": k, "op": "parse", "ast": True, "cddl": s} for k, s in enumerate(cand)]
    ops += [{"id": len(cand) + k, "op": "parse", "ast": True, "cddl": texts[i]} for k, (i, v) in enumerate(bad)]
    res = vlib.execute(ops)
    orig_ast = {i: res[len(cand) + k]["obs"].get("ast") for k, (i, v) in enumerate(bad)}
    verd = dict(bad)
    keep = []
    for k, (s, i) in enumerate(zip(cand, owner)):
        o = res[k]["obs"]
        if not o.get("ok"):
            continue
        if verd[i] == "bad:accepted-not-derivable" and o.get("ast") != orig_ast[i]:
            continue
        keep.append((s, i))
    # at most 6 candidates per case go to the recogniser
    per = collections.Counter()
    sel = []
    for s, i in keep:
        if per[i] < 12:
            per[i] += 1
            sel.append((s, i))
    ev = [{"cs": cps(s), "accepted": True, "cls": "syntax"} for s, i in sel]
    vv = semcheck.judge(ev, wd, [], module="Trace_Syntax", chunk=40, workers=12)
    for k, (s, i) in enumerate(sel):
        if vv.get(k, "ok") == "ok":          # the variant is derivable (and accepted, with the same AST in case K1)
            if verd[i] == "bad:accepted-not-derivable":
                known.setdefault(i, "C03-implicit-whitespace")
            else:
                known.setdefault(i, "C03-group-rule-occurrence" if s in k3set else "C03-socket-generics" if s in k4set else "C03-peg-longest-match")
    for i, v in bad:
        if i not in known and v == "bad:rejected-derivable":
            body = texts[i]
            import re
            # a '$' / '$$' that stands alone as an identifier, also directly after a control operator name ('.eq$ x' read as '.eq $ x')
            # also a number directly followed by '$' + non-letter: "2$3" is the two entries "2" and "$3"
            if re.search(r"(?<![\w@.$-])\${1,2}(?![A-Za-z_@$])", body) or re.search(r"\.[A-Za-z][A-Za-z0-9-]*\${1,2}(?![A-Za-z_@$])", body) \
                    or re.search(r"(?<![A-Za-z_@.$])[0-9][0-9A-Fa-fxXbB.]*\${1,2}(?![A-Za-z_@$])", body) \
                    or re.search(r"\.\.\.?\${1,2}(?![A-Za-z_@$])", body):          # directly after a range operator: '...$ x' 
                known[i] = "C03-bare-dollar-identifier"
    for i, v in bad:
        if i not in known and v == "bad:rejected-derivable":
            import re
            # a group entry that starts with a parenthesised type followed by an operator or a choice: '[ (5) ... 6 ]', '* ( a ) .. 5'
            if re.search(r"[\[{(,]\s*(?:\d*\*\d*\s*|[?+]\s*)?\([^()]*\)\s*(?:\.\.\.?|\.[a-z]|/(?!/))", texts[i]) and "C03-paren-leading-entry" in fids_all:
                known[i] = "C03-paren-leading-entry"
    for i, v in bad:
        if i not in known and v == "bad:rejected-derivable":
            import re
            # an identifier with two or more consecutive '-' / '.' inside ("x..y", "a.-b"): id = EALPHA *(*("-" / ".") (EALPHA / DIGIT))
            # allows it, the PEG reads '..' as the range operator
            if re.search(r"(?<![\w@$.-])[A-Za-z_@$][\w@$]*(?:[-.]?[\w@$]+)*[-.]{2,}[\w@$]", texts[i]):
                known[i] = "C03-id-consecutive-dots"
    for i, v in bad:
        if i not in known and v == "bad:rejected-derivable":
            import re
            # a name with a single '$' prefix extended with '//=': an id per the ABNF, but the PEG reserves '$$' for group sockets
            if re.search(r"(?m)^\s*\$(?!\$)[\w.@$-]*\s*(<[^>\n]*>)?\s*//=", texts[i]):
                known[i] = "C03-single-dollar-groupname"
                continue
            # '&' applied to a name with a single '$' prefix: an id per the ABNF, but the PEG wants a group name ('$$' socket or plain)
            if re.search(r"&\s*\$(?!\$)", texts[i]):
                known[i] = "C03-single-dollar-groupname"
    return known


def run():
    t0 = time.time()
    t = vlib.tier()
    rnd = random.Random(vlib.seed() * 1009 + 3)
    wd = vlib.workdir(PID)
    findings = vlib.load_findings(PID)
    fids = {f["id"] for f in findings}
    out = vlib.Outcome(PID)
    n_pos = 500 if t == "quick" else 12000
    n_rec = 110 if t == "quick" else 1500       # positive documents also sent to the recogniser
    # the mutation family probes the fringe of the grammar, where every mismatch so far has been one of the listed pedantic
    # leniencies; it is kept moderate in the thorough tier (the generated, derivable family carries the depth)
    n_neg = 120 if t == "quick" else 600
    # ---------------- positive
    docs = []
    for i in range(n_pos):
        sg = syngen.SynGen(rnd, depth=rnd.choice([1, 2, 2, 3]))
        rules = sg.document()
        text = syngen.join(syngen.Renderer(rnd).document(rules), rnd, comments=rnd.random() < 0.4, crlf=rnd.random() < 0.15,
                           final_comment=rnd.random() < 0.1)
        docs.append((rules, text))
    res = vlib.execute([{"id": i, "op": "parse", "ast": True, "cddl": tx} for i, (r, tx) in enumerate(docs)])
    events, texts = [], []
    mirror_ok = 0
    samples = []
    rec_budget = n_rec
    for (rules, text), r in zip(docs, res):
        o = r["obs"]
        if "ok" not in o:
            out.violation("outcome:" + sorted(o)[0], {"property": PID, "cddl": text, "observed": o})
            continue
        if not o["ok"]:
            # a generated document can legitimately repeat a rule name or spell a number beyond the representable range;
            # its literals are valid by construction, so an 'Invalid ...' literal error is a rejection of a derivable document
            if any(k in ((o.get("err") or {}).get("short") or "") for k in ("already defined", "out of range")):
                continue
            out.violation("generated-document-rejected:" + (o["err"].get("short") or "")[:50],
                          {"property": PID, "kind": "rejected-generated", "cddl": text, "error": o["err"], "generated_ast": rules,
                           "spec": "documents generated from the abstract syntax are derivable (checked by Grammar!Derivable on a sample)"})
            continue
        if syngen.norm(o["ast"]) != syngen.norm(rules):
            out.violation("ast-mirror", {"property": PID, "kind": "ast-mirror", "cddl": text, "generated_ast": syngen.norm(rules), "parsed_ast": syngen.norm(o["ast"])})
        else:
            mirror_ok += 1
            if len(samples) < 3 and 30 < len(text) < 120:
                samples.append({"cddl": text, "accepted": True, "ast_mirrors_generated": True})
        if rec_budget > 0 and len(text) <= 150:
            rec_budget -= 1
            events.append({"cs": cps(text), "accepted": True, "cls": "syntax"})
            texts.append(text)
    n_pos_rec = len(events)
    # ---------------- negative: mutants and short strings
    base = [tx for r, tx in docs if 4 <= len(tx) <= 90]
    canon = []
    for i in range(n_neg):
        sg = syngen.SynGen(rnd, depth=rnd.choice([1, 1, 2]), max_rules=2)
        tx = syngen.join(syngen.Renderer(rnd).document(sg.document()), None)
        if 4 <= len(tx) <= 100:
            canon.append(tx)
    neg = []
    for tx in canon:
        for _ in range(2):
            s = list(tx)
            x = rnd.random()
            pos = rnd.randrange(len(s))
            if x < 0.4:
                del s[pos]
            elif x < 0.7:
                s[pos] = rnd.choice(ALPH)
            elif x < 0.9:
                s.insert(pos, rnd.choice(ALPH))
            elif pos + 1 < len(s):
                s[pos], s[pos + 1] = s[pos + 1], s[pos]
            neg.append("".join(s))
    for _ in range(n_neg):
        neg.append("a = " + "".join(rnd.choice(ALPH) for _ in range(rnd.randint(1, 6))) + "\n")
    nres = vlib.execute([{"id": i, "op": "parse", "cddl": tx} for i, tx in enumerate(neg)])
    n_acc = n_rej = 0
    for tx, r in zip(neg, nres):
        o = r["obs"]
        if "ok" not in o:
            out.violation("outcome:" + sorted(o)[0], {"property": PID, "cddl": tx, "observed": o})
            continue
        events.append({"cs": cps(tx), "accepted": bool(o["ok"]), "cls": "syntax" if o["ok"] else err_class(o)})
        texts.append(tx)
        if o["ok"]:
            n_acc += 1
        else:
            n_rej += 1
    verdicts = semcheck.judge(events, wd, [], module="Trace_Syntax", chunk=40, workers=12, timeout=3000)
    bad = [(i, v) for i, v in verdicts.items() if v.startswith("bad")]
    known = classify(bad, texts, wd, fids)
    agree = len(events) - len(bad)
    for i, v in bad:
        fid = known.get(i)
        if fid and fid in fids:
            out.known_hit(fid)
        else:
            out.violation("%s:%s" % (v, fid or "unclassified"), {"property": PID, "kind": v, "cddl": texts[i], "generated": i < n_pos_rec,
                                                                 "class": fid, "spec": "Grammar!Derivable"})
    vlib.rerun_witnesses(out, findings)
    wall = time.time() - t0
    cov = {"states": len(events) + 1, "transitions": len(events), "traces_validated_against_impl": len(events),
           "evaluations": len(docs) + len(neg), "distinct_nontrivial": mirror_ok + agree,
           "rule": "positive: documents generated from the abstract syntax with random trivia and literal spellings: accepted, AST mirrors the generated one (all), "
                   "text derivable by Grammar!Derivable (sample of the shorter ones); negative: single-character edits of canonical renderings and short strings over a "
                   "34-symbol alphabet judged by TLC (accepted => derivable; grammar-level rejection => not derivable). Non-trivial/distinct = mirrored documents + recogniser agreements.",
           "samples": samples or [{"note": "none"}], "exhaustive": False, "positive_documents": len(docs), "ast_mirror_ok": mirror_ok,
           "recogniser_events": len(events), "recogniser_positive": n_pos_rec, "negative_accepted": n_acc, "negative_rejected": n_rej,
           "known_finding_hits": out.known, "checker_cmd": "tlc Trace_Syntax"}
    if mirror_ok < 100 or n_acc < 10 or n_rej < 30:
        raise vlib.ToolError("vacuity gate %s" % {k: cov[k] for k in ("ast_mirror_ok", "negative_accepted", "negative_rejected")})
    vlib.write_evidence(PID, "model_checking", cov, wall, len(out.violations),
                        ["ABNF transcribed from memory of RFC 8610 App. B / RFC 9682 and cross-checked against the ABNF quoted in the crate (no network)",
                         "generated fragment: commas between entries are always written; constructs of the listed C03 findings are not generated",
                         "recogniser-checked texts are capped at 150 characters (cost grows with bracket nesting)"])
    return out.finish(findings)


def replay(path):
    with open(path) as f:
        p = json.load(f)
    wd = vlib.workdir(PID)
    r = vlib.execute([{"id": 0, "op": "parse", "ast": True, "cddl": p["cddl"]}])[0]["obs"]
    print(repr(p["cddl"]), "->", "accepted" if r.get("ok") else ("rejected: " + str((r.get("err") or {}).get("short"))))
    v = semcheck.judge([{"cs": cps(p["cddl"]), "accepted": bool(r.get("ok")), "cls": "syntax" if r.get("ok") else err_class(r)}], wd, [], module="Trace_Syntax")
    print("spec:", v.get(0, "ok"))
    if p.get("kind") in ("ast-mirror", "rejected-generated") or v.get(0, "ok").startswith("bad"):
        print("VIOLATION property=%s replay=%s" % (PID, path))
        return 1
    return 0
