"""C14 - validation failures are reported faithfully and deterministically.

spec/Api.tla: the library as a memoryless service whose state is the history (first result of every call); Return(id, res) is
enabled only if it agrees with the history.  The same multiset of calls is executed (a) sequentially, every call three times in
one process, (b) on 8 threads in different interleaved orders; Trace_Api drives one Api!Return per recorded return, so an
execution in which a call's verdict or ordered (location, reason) list depends on history or thread is not a behaviour of the
specification.  Every result is also checked for faithfulness (cause -> kind, Err(Validation) non-empty, Ok without errors) and,
for JSON, every error location must resolve to a node of the validated document (Api!Resolves)."""
import collections
import json
import os
import random
import time

import cborlib as C
import cddlgen as G
import semcheck
import vlib

PID = "C14"


def abstract(obs):
    kind = obs.get("kind") or sorted(obs)[0]
    errs = [{"loc": e["loc"], "reason": e["reason"]} for e in obs.get("errors", [])] if kind == "validation" else []
    return {"kind": kind, "errs": errs}


def segs(loc):
    if loc == "":
        return []
    parts = loc.split("/")[1:] if loc.startswith("/") else loc.split("/")
    return [[ord(c) for c in p] for p in parts]


def run():
    t0 = time.time()
    t = vlib.tier()
    rnd = random.Random(vlib.seed() * 1409 + 14)
    wd = vlib.workdir(PID)
    findings = vlib.load_findings(PID)
    out = vlib.Outcome(PID)
    n_schemas = 120 if t == "quick" else 2500
    calls = []      # (op, cause, fmt, val)
    for fmt in ("json", "cbor"):
        for c in semcheck.gen_pairs(rnd, fmt, n_schemas, per_schema=5):
            op = semcheck.case_to_op(c, 0)
            x = rnd.random()
            cause = "wellformed"
            if x < 0.06:
                # malformed schema: unbalanced bracket / junk
                op["cddl"] = rnd.choice(["root = [ int", "root = ", "= int", "root = { a: }", op["cddl"].replace("=", "= [", 1)])
                cause = "schema"
            elif x < 0.12:
                if fmt == "json":
                    op["json"] = rnd.choice(['{"a":', "[1,", "nul", '"unterminated', "{,}", ""])
                else:
                    op["hex"] = rnd.choice(["", "18", "a1", "5f41", "ff", "9f01", "7b00000000"])
                cause = "document"
            calls.append((op, cause, fmt, c["val"]))
    for i, (op, _, _, _) in enumerate(calls):
        op["id"] = i + 1
    ops = [c[0] for c in calls]
    # (a) sequential, 3 repetitions per call inside one process each
    seq_ops = [dict(o, reps=3) for o in ops]
    seq = vlib.execute(seq_ops)
    # (b) 8 threads, different orders, in one process; chunks keep memory bounded
    thr = []
    for lo in range(0, len(ops), 1500):
        part, rc = vlib.execute_threads(ops[lo:lo + 1500], n=8, timeout=1200)
        if rc != 0:
            out.violation("threads-run-died", {"property": PID, "kind": "process exit %s" % rc, "first_call": ops[lo]})
        thr += part
    events = [{"ev": "Begin", "n": len(ops)}]
    meta = [None]
    nondet_inproc = 0
    for (op, cause, fmt, val), r in zip(calls, seq):
        obs = r["obs"]
        if "kind" not in obs:
            out.violation("outcome:" + sorted(obs)[0], {"property": PID, "call": op, "observed": obs, "spec": "Api: every call returns Ok or Err"})
            continue
        res = abstract(obs)
        if not r.get("det", True):
            nondet_inproc += 1
            out.violation("not-functional-in-process", {"property": PID, "call": op, "observed": obs, "spec": "Api!Return: three repetitions in one process differ"})
        events.append({"ev": "Call", "id": op["id"], "res": res})
        meta.append({"call": op, "source": "sequential"})
        locs = [segs(e["loc"]) for e in res["errs"]]
        events.append({"ev": "Result", "cause": cause, "res": res, "fmt": fmt, "val": val if cause == "wellformed" and fmt == "json" else {"k": "null"},
                       "locs": locs if cause == "wellformed" and fmt == "json" else []})
        meta.append({"call": op, "cause": cause, "result": res, "source": "result"})
    by_id = {op["id"]: op for op in ops}
    for r in thr:
        obs = r["obs"]
        if "kind" not in obs:
            out.violation("outcome-threads:" + sorted(obs)[0], {"property": PID, "call": by_id.get(r["id"]), "observed": obs, "thread": r.get("thread")})
            continue
        events.append({"ev": "Call", "id": r["id"], "res": abstract(obs)})
        meta.append({"call": by_id.get(r["id"]), "source": "thread %s seq %s" % (r.get("thread"), r.get("seq"))})
    # one TLC run per batch of 1500 calls (the batches of the threaded runs): the history of a call stays in one trace,
    # and the history sequence stays short (a single trace with 10^5 calls is quadratic in TLC)
    B = 1500
    batches = {}
    for gi, e in enumerate(events):
        if e["ev"] == "Begin":
            continue
        cid = e["id"] if e["ev"] == "Call" else meta[gi]["call"]["id"]
        b = (cid - 1) // B
        e2 = dict(e)
        if e["ev"] == "Call":
            e2["id"] = (cid - 1) % B + 1
        batches.setdefault(b, []).append((gi, e2))
    verdicts = {}

    def judge_batch(b):
        evs = [{"ev": "Begin", "n": B}] + [e for _, e in batches[b]]
        bw = os.path.join(wd, "batch_%d" % b)
        os.makedirs(bw, exist_ok=True)
        v = semcheck.judge(evs, bw, [], module="Trace_Api", chunk=10 ** 9, workers=1, timeout=3000)
        return {batches[b][i - 1][0]: x for i, x in v.items() if i >= 1}
    import concurrent.futures
    with concurrent.futures.ThreadPoolExecutor(max_workers=8) as ex:
        for r in ex.map(judge_batch, sorted(batches)):
            verdicts.update(r)
    stats = collections.Counter(e["res"]["kind"] for e in events if e["ev"] == "Result")
    ok_results = sum(1 for i, e in enumerate(events) if e["ev"] == "Result" and i not in verdicts)
    n_locs = sum(len(e["locs"]) for e in events if e["ev"] == "Result")
    known_sigs = {f["sig"]: f["id"] for f in findings if f.get("sig")}
    for i, v in verdicts.items():
        m = meta[i]
        sig = v
        if sig in known_sigs:
            out.known_hit(known_sigs[sig])
            continue
        out.violation(sig, dict(m, property=PID, verdict=v, event={k: x for k, x in events[i].items() if k != "val"}, spec="Api.tla (Trace_Api)"))
    wall = time.time() - t0
    n_calls = sum(1 for e in events if e["ev"] == "Call")
    cov = {"states": len(events) + 1, "transitions": len(events), "traces_validated_against_impl": len(events), "evaluations": n_calls,
           "distinct_nontrivial": ok_results, "rule": "%d distinct calls (JSON and CBOR validation of random schemas/instances/mutants, malformed schemas, malformed documents); each executed 3x "
           "sequentially in one process and once on each of 8 threads in different orders; one Api!Return per recorded return (history = first result per call), plus one Result "
           "event per call for faithfulness and JSON location resolution. Non-trivial/distinct = distinct calls whose result is faithful and whose locations resolve." % len(ops),
           "samples": [{"call": calls[0][0], "result": abstract(seq[0]["obs"])}], "exhaustive": False, "distinct_calls": len(ops), "returns_validated": n_calls,
           "result_kinds": dict(stats), "json_locations_resolved": n_locs, "threads": 8, "known_finding_hits": out.known, "checker_cmd": "tlc Trace_Api"}
    if stats["ok"] < 50 or stats["validation"] < 50 or stats["cddl"] < 5 or stats["doc"] < 5:
        raise vlib.ToolError("vacuity gate %s" % dict(stats))
    vlib.write_evidence(PID, "model_checking", cov, wall, len(out.violations),
                        ["error reasons are compared as strings, locations as strings", "keys of generated documents contain no '/'",
                         "thread interleavings are whatever the scheduler produced in this run (8 threads, strided orders)"])
    return out.finish(findings)


def replay(path):
    p = json.load(open(path))
    op = dict(p["call"], id=1, reps=3)
    r = vlib.execute([op])[0]
    print(json.dumps(op)[:400]); print("->", json.dumps(r["obs"])[:600], "deterministic in process:", r.get("det"))
    print("recorded verdict:", p.get("verdict"))
    print("VIOLATION property=%s replay=%s" % (PID, path))
    return 1
