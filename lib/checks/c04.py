"""C04 - JSON and CBOR validators give the same verdict on the same JSON-model data.

Relation JsonCbor (spec/Relations.tla): the value is in the JSON data model and the schema uses no CBOR-only
construct.  TLC enumerates the MC_Sem scopes as a source of (schema, value) pairs and re-checks relatedness and
verdict equality of every recorded pair of runs (Trace_Rel); random schemas use the extended shared feature set
(generics, sockets, unwrap, &, .and/.within/.default/.cat/.plus/.regexp).  Independent of the oracle verdict."""
import json
import random
import time

import cborlib as C
import cddlgen as G
import relcheck
import semcheck
import vlib
from checks.sem_common import observed_verdict

PID = "C04"


def run_pairs(cases):
    """each case (rules, val) is validated as JSON text and as preferred CBOR"""
    jc = [{"fmt": "json", "rules": r, "val": v} for r, v in cases]
    cc = [{"fmt": "cbor", "rules": r, "val": v} for r, v in cases]
    ops_j, res_j = semcheck.run_cases(jc)
    ops_c, res_c = semcheck.run_cases(cc)
    return ops_j, res_j, ops_c, res_c


def run():
    t0 = time.time()
    t = vlib.tier()
    rnd = random.Random(vlib.seed() * 7907 + 4)
    wd = vlib.workdir(PID)
    findings = vlib.load_findings(PID)
    known_dev = sorted(set(f["dev"] for f in findings if f.get("dev")))
    dev_to_id = {f["dev"]: f["id"] for f in findings if f.get("dev")}
    out = vlib.Outcome(PID)
    pairs, states, transitions = relcheck.tlc_scope_pairs(wd, "json", ["A", "B", "C", "D"], t == "quick", [])
    pairs = [(r, v) for r, v in pairs if C.is_json_model(v)]
    if t == "quick" and len(pairs) > 14000:
        pairs = rnd.sample(pairs, 14000)
    n_schemas = 300 if t == "quick" else 6000
    rc = semcheck.gen_pairs(rnd, "json", n_schemas, profile="shared") + semcheck.gen_pairs(rnd, "json", n_schemas // 2, profile="sharedx")
    pairs += [(c["rules"], c["val"]) for c in rc]
    ops_j, res_j, ops_c, res_c = run_pairs(pairs)
    events, metas, samples = [], [], []
    for (r, v), oj, rj, oc, rcb in zip(pairs, ops_j, res_j, ops_c, res_c):
        vj, vc = observed_verdict(rj["obs"]), observed_verdict(rcb["obs"])
        meta = {"cddl": oj["cddl"], "json": oj["json"], "cbor_hex": oc["hex"], "json_obs": {k: x for k, x in rj["obs"].items() if k != "errors"},
                "cbor_obs": {k: x for k, x in rcb["obs"].items() if k != "errors"}, "rules": r, "val": v}
        if vj is None or vc is None:
            kj, kc = rj["obs"].get("kind"), rcb["obs"].get("kind")
            if kj == "cddl" and kc == "cddl":
                continue          # both reject the schema text: same result (parser properties are C03/C12)
            out.violation("outcome:%s/%s" % (kj or sorted(rj["obs"])[0], kc or sorted(rcb["obs"])[0]), dict(meta, property=PID, kind="no-verdict"))
            continue
        meta["accept"] = vj == "T"
        events.append({"ev": "JsonCbor", "rules": r, "val": v, "okj": vj == "T", "okc": vc == "T"})
        metas.append(meta)
        if len(samples) < 6 and vj == "T" and v["k"] in ("arr", "map") and rnd.random() < 0.01:
            samples.append({"cddl": oj["cddl"], "json": oj["json"], "cbor": oc["hex"], "json_ok": True, "cbor_ok": vc == "T"})
    return relcheck.finish_rel(PID, out, findings, events, metas, wd, known_dev, dev_to_id, t0, states, transitions,
                               "pairs of runs (validate_json_from_str, validate_cbor_from_slice) on the same schema and the same JSON-model value; "
                               "sources: every (schema,value) state of MC_Sem scopes A-D enumerated by TLC, plus random schemas of the shared feature set "
                               "(generics, sockets, unwrap, &, .and/.within/.default/.cat/.plus, and - without an oracle clause - .regexp, float .plus, nested .cat) with instances, mutants and unrelated values. Trace_Rel re-derives "
                               "relatedness (JsonModel, SharedSchema) and requires equal verdicts. Non-trivial/distinct = distinct pairs with equal verdicts.",
                               samples, {"tlc_scope_pairs": len(pairs) - len(rc), "random_pairs": len(rc), "exhaustive": True},
                               ["relation is independent of the oracle; the oracle is only used to attribute a mismatch to a listed deviation",
                                "CBOR side uses the preferred encoding (encoding independence is part of C02)"])


def replay(path):
    with open(path) as f:
        p = json.load(f)
    ops_j, res_j, ops_c, res_c = run_pairs([(p["rules"], p["val"])])
    vj, vc = observed_verdict(res_j[0]["obs"]), observed_verdict(res_c[0]["obs"])
    print("cddl:", ops_j[0]["cddl"].strip(), "\njson:", ops_j[0]["json"], "->", vj, "\ncbor:", ops_c[0]["hex"], "->", vc)
    if vj != vc:
        print("VIOLATION property=%s replay=%s" % (PID, path))
        return 1
    return 0
