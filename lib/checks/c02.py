from checks import sem_common
PID = "C02"
def run():
    return sem_common.run_sem(PID, "cbor")
def replay(path):
    return sem_common.replay(PID, "cbor", path)
