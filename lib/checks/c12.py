"""C12 - duplicate rule definitions and undefined references are always caught.

spec -> impl : MC_RuleTable explores every definition sequence up to the bound (each reachable state of the RuleTable
               machine is a document prefix); TLC checks that the machine refines the declarative statement of the
               property, and every state is rendered to a document and replayed into the real parser (outcome, name and
               position of the error).
impl -> spec : the recorded parser outcomes are validated by Trace_Parse (RunDefs drives one Define per rule);
               for undefined references the AST produced by the real parser is projected and TLC computes Undefined(...)."""
import json
import os
import random
import re
import time

import cddlgen as G
import semcheck
import vlib

PID = "C12"

BODY = {("type", "plain"): ["int", "tstr", "[* int]", "{a: int}"], ("type", "generic"): ["[T]", "T / nil"],
        ("group", "plain"): ["(x: int)", "(y: tstr, z: int)"], ("group", "generic"): ["(x: T)"]}


def render_defs(defs, rnd, style):
    """root rule first, then one rule per definition (kind/op decide the syntax), filler rules for distance.
    returns text and the byte offset + line of every definition"""
    lines = ["root = any"]
    offs = []
    fill = 0
    for d in defs:
        for _ in range(d["dist"]):
            fill += 1
            lines.append("filler%d = int ; é filler" % fill if style == 1 else "filler%d = int" % fill)
        kind = "group" if d["op"] == "//=" else ("type" if d["op"] == "/=" else d.get("kind", "type"))
        name = d["name"]
        params = "<T>" if d["form"] == "generic" else ""
        body = rnd.choice(BODY[(kind, d["form"])])
        lines.append("%s%s %s %s" % (name, params, d["op"], body))
        offs.append(len(lines) - 1)
    nl = "\r\n" if style == 2 else "\n"
    text = nl.join(lines) + nl
    starts = []
    pos = 0
    for ln in lines:
        starts.append(pos)
        pos += len(ln.encode("utf-8")) + len(nl)
    return text, [(starts[i], i + 1) for i in offs]


TEMPLATES = ["root = {X}", "root = [{X}]", "root = [* {X}]", "root = {{ {X} => int }}", "root = {{ a: {X} }}", "root = {{ {X} }}",
             "root = p<{X}>\np<T> = [T]", "root = int .size {X}", "root = {X} .size 3", "root = {X}..5", "root = 1..{X}", "root = [~{X}]",
             "root = &{X}", "root = #6.1({X})", "root = ( {X} )", "root = [ ( {X}, int ) ]", "root = {{ ? a: int // {X} }}", "root = tstr / {X}",
             "root = [g]\ng = ( {X} )", "root = {{ * {X} => any }}", "root = {{ {X} ^ => any }}", "root = [2*3 {X}]", "root = {{ a: int, {X} }}",
             "root = [q<int>]\nq<T> = ( {X}, T )", "root = {{ a: [ {{ b: {X} }} ] }}", "root = int .and {X}", "root = {X}<int>\n", "root = [* a: {X}]"]
NAMES = [("int", "prelude"), ("d1", "defined"), ("zz9", "undefined"), ("$zz", "socket"), ("$$zz", "gsocket"), ("T", "param-elsewhere"), ("bstr", "prelude")]


def socks_of(ast):
    out = set()

    def walk(o):
        if isinstance(o, dict):
            for k in ("n", "name"):
                if isinstance(o.get(k), str) and o[k].startswith("$"):
                    out.add(o[k])
            for v in o.values():
                walk(v)
        elif isinstance(o, list):
            for v in o:
                walk(v)
    walk(ast)
    return sorted(out)


def run():
    t0 = time.time()
    t = vlib.tier()
    rnd = random.Random(vlib.seed() * 3001 + 12)
    wd = vlib.workdir(PID)
    findings = vlib.load_findings(PID)
    finding_ids = {f["id"] for f in findings}
    out = vlib.Outcome(PID)
    # ---- E: the rule table machine, explored by TLC
    cfg = os.path.join(wd, "MC_RuleTable.cfg")
    vlib.write_cfg(cfg, constants={"Names": '{"a", "b"}' if t == "quick" else '{"a", "b", "$s"}', "MaxLen": 3 if t == "quick" else 4},
                   invariants=["Refines", "IncrOnly", "Emit"])
    res = vlib.tlc("MC_RuleTable", cfg, wd, workers=8, timeout=2400, coverage=False)
    vlib.tlc_must(res, "MC_RuleTable (Refines, IncrOnly)")
    gen = [o for tag, o in res.lines if tag == "R"]
    if len(gen) != res.distinct:
        raise vlib.ToolError("replay records lost: %d vs %d" % (len(gen), res.distinct))
    if t == "thorough" and len(gen) > 120000:
        gen = rnd.sample(gen, 120000)
    ops, metas = [], []
    for i, g in enumerate(gen):
        style = i % 3
        text, where = render_defs(g["defs"], rnd, style)
        ops.append({"id": i, "op": "parse", "cddl": text})
        metas.append((g, text, where))
    results = vlib.execute(ops)
    events, evmeta = [], []
    stats = {"accept": 0, "reject": 0, "pos_checked": 0}
    samples = []
    for (g, text, where), r in zip(metas, results):
        obs = r["obs"]
        if "ok" not in obs:
            out.violation("outcome:" + sorted(obs)[0], {"property": PID, "cddl": text, "observed": obs})
            continue
        if obs["ok"]:
            err = {"at": 0, "name": ""}
            stats["accept"] += 1
        else:
            e = obs["err"]
            m = re.match(r'rule "(.*)" is already defined', e.get("short", ""))
            if not m and re.search(r"(?m)^\${1,2}[A-Za-z0-9_.@-]*<", text) and "C03-socket-generics" in finding_ids:
                # a socket with generic parameters ('$s<T> //= ...') is rejected by the parser: listed under C03
                out.known_hit("C03-socket-generics")
                continue
            if not m and re.search(r"(?m)^\$(?!\$)[A-Za-z0-9_.@-]*\s*(<[^>\n]*>)?\s*//=", text) and "C03-single-dollar-groupname" in finding_ids:
                # a name with a single '$' extended as a group ('$s //= ...') is rejected by the parser: listed under C03
                out.known_hit("C03-single-dollar-groupname")
                continue
            if not m:
                out.violation("parse-error-other", {"property": PID, "cddl": text, "observed": e, "expected": g["err"],
                                                    "spec": "documents of MC_RuleTable are syntactically valid: only the duplicate error may occur"})
                continue
            # which definition does the reported position point at? (byte index and 1-based line of the rule start)
            at = 0
            for k, (off, line) in enumerate(where):
                if off == e.get("index"):
                    at = k + 1
                    if e.get("line") != line:
                        at = -1
            err = {"at": at, "name": m.group(1)}
            stats["reject"] += 1
            stats["pos_checked"] += 1
        # all three entry points agree on acceptance
        if not (obs["ok"] == obs["str_ok"] == obs["checked_ok"]):
            out.violation("entry-points-disagree", {"property": PID, "cddl": text, "observed": {k: obs[k] for k in ("ok", "str_ok", "checked_ok")}})
        events.append({"ev": "Dup", "defs": g["defs"], "err": err})
        evmeta.append({"cddl": text, "expected": g["err"], "observed": err})
        if len(samples) < 3 and not obs["ok"] and len(g["defs"]) == 3:
            samples.append({"cddl": text, "expected": g["err"], "observed": err})
    # ---- undefined references: templates x name classes, AST from the real parser judged by TLC
    uops, umeta = [], []
    for tpl in TEMPLATES:
        for name, cls in NAMES:
            body = tpl.replace("{{", "{").replace("}}", "}").replace("{X}", name)
            # layout 1: the rule that holds the reference comes first, helper rules after it
            text = body + "\nd1 = int\n"
            if cls == "param-elsewhere":
                text += "gg<T> = [T]\n"
            uops.append({"id": len(uops), "op": "parse", "cddl": text, "ast": True})
            umeta.append((tpl, name, cls, text))
            # layout 2: a generic rule whose parameter is T, then the rule that holds the reference (scoping of generic
            # parameters is per rule: T is not in scope there), then more rules
            text2 = "start = any\ngg<T> = [T]\n" + body.replace("root", "holder").replace("p<", "pp<").replace("\np<T>", "\npp<T>") + "\nd1 = int\nlater<U> = [U]\n"
            uops.append({"id": len(uops), "op": "parse", "cddl": text2, "ast": True})
            umeta.append((tpl + " (after a generic rule)", name, cls, text2))
    # plus random schemas with one reference renamed to an undefined / socket name
    for k in range(150 if t == "quick" else 3000):
        g = G.Gen(rnd, fmt="cbor", profile="shared")
        rules = g.schema()
        text = G.render(rules)
        names = sorted(set(re.findall(r"\b(t\d+|g\d+|p\d+|u\d+)\b", text)))
        cls = "random"
        if names and rnd.random() < 0.7:
            victim = rnd.choice(names)
            # rename one *use* (not the definition at line start)
            uses = [m.start() for m in re.finditer(r"(?<![\w$])%s(?![\w])" % re.escape(victim), text) if m.start() > 0 and text[m.start() - 1] != "\n"]
            if uses:
                u = rnd.choice(uses)
                text = text[:u] + rnd.choice(["zz9", "$zz", "zz9", "any"]) + text[u + len(victim):]
        uops.append({"id": len(uops), "op": "parse", "cddl": text, "ast": True})
        umeta.append(("random", "", cls, text))
    ures = vlib.execute(uops)
    n_undef = 0
    for (tpl, name, cls, text), r in zip(umeta, ures):
        obs = r["obs"]
        if "ok" not in obs:
            out.violation("outcome:" + sorted(obs)[0], {"property": PID, "cddl": text, "observed": obs})
            continue
        if not obs["ok"]:
            continue          # not accepted by the unchecked parser (syntax or duplicate): outside this half of the property
        nm = ""
        if not obs["checked_ok"]:
            m = re.search(r"missing definition for rule (\S+)", obs.get("checked_err", ""))
            nm = m.group(1) if m else "?"
        events.append({"ev": "Undef", "rules": obs["ast"], "socks": socks_of(obs["ast"]), "ok": obs["checked_ok"], "name": nm})
        evmeta.append({"cddl": text, "class": cls, "template": tpl, "checked_ok": obs["checked_ok"], "reported": nm})
        n_undef += 1
        if len(samples) < 6 and cls == "undefined" and rnd.random() < 0.2:
            samples.append({"cddl": text, "checked_ok": obs["checked_ok"], "reported": nm})
    verdicts = semcheck.judge(events, wd, [], module="Trace_Parse", chunk=3000)
    nontrivial = 0
    for i, meta in enumerate(evmeta):
        v = verdicts.get(i, "ok")
        if v == "ok":
            nontrivial += 1
        else:
            sig = "%s:%s:%s" % (events[i]["ev"], v, meta.get("template", meta.get("expected")))
            out.violation(sig[:200], dict(meta, property=PID, verdict=v, spec="Trace_Parse!Judge"))
    vlib.rerun_witnesses(out, findings)
    wall = time.time() - t0
    cov = {"states": res.distinct, "transitions": res.generated, "traces_validated_against_impl": len(events),
           "evaluations": len(ops) + len(uops), "distinct_nontrivial": nontrivial,
           "rule": "every reachable state of MC_RuleTable (definition sequences over 2-3 names x {=,/=,//=} x {plain,generic} x distance) is rendered "
                   "(LF, CRLF, multi-byte comments) and parsed; outcome, reported name and reported position are validated by Trace_Parse (RunDefs). "
                   "Undefined references: 28 syntactic positions x 7 name classes plus random schemas with one use renamed; the AST of the real parser is projected and "
                   "TLC computes Undefined. Non-trivial/distinct = events on which implementation and specification agree.",
           "samples": samples or [{"note": "none"}], "exhaustive": True, "dup_accept": stats["accept"], "dup_reject": stats["reject"],
           "error_positions_checked": stats["pos_checked"], "undefined_reference_events": n_undef,
           "tlc_invariants": ["Refines (machine = declarative property)", "IncrOnly"], "checker_cmd": "tlc MC_RuleTable ; tlc Trace_Parse"}
    if stats["accept"] < 20 or stats["reject"] < 20:
        raise vlib.ToolError("vacuity gate %s" % stats)
    vlib.write_evidence(PID, "model_checking", cov, wall, len(out.violations),
                        ["error position = byte index and 1-based line of the start of the later definition (shared with C15)",
                         "socket names are recognised by their $ prefix in the projected AST"])
    return out.finish(findings)


def replay(path):
    with open(path) as f:
        p = json.load(f)
    r = vlib.execute([{"id": 0, "op": "parse", "cddl": p["cddl"]}])[0]["obs"]
    print(p["cddl"])
    print({k: r.get(k) for k in ("ok", "err", "checked_ok", "checked_err")})
    print("recorded verdict:", p.get("verdict"))
    print("VIOLATION property=%s replay=%s" % (PID, path))
    return 1
