"""C10 - map validation does not depend on entry order.

Relations PermEq (document: map entries permuted at any depth; CBOR encoding order / JSON text order) and MPermSchema
(schema: members of a map group with pairwise distinct literal keys permuted) from spec/Relations.tla.  Trace_Rel
re-derives relatedness and requires equal verdicts.  Duplicate physical keys in CBOR maps are judged by the oracle
(Trace_Sem: a map is a sequence of physical pairs, each must be accounted for)."""
import copy
import json
import random
import time

import cborlib as C
import cddlgen as G
import relcheck
import semcheck
import vlib
from checks.sem_common import observed_verdict

PID = "C10"


def has_multi_map(v):
    if v["k"] == "map":
        return len(v["pairs"]) >= 2 or any(has_multi_map(p["val"]) for p in v["pairs"])
    if v["k"] == "arr":
        return any(has_multi_map(x) for x in v["items"])
    if v["k"] == "tag":
        return has_multi_map(v["c"])
    return False


def permute_value(rnd, v, mode):
    if v["k"] == "map":
        pairs = [{"key": p["key"], "val": permute_value(rnd, p["val"], mode)} for p in v["pairs"]]
        if mode == "reverse":
            pairs.reverse()
        elif mode == "rotate" and pairs:
            pairs = pairs[1:] + pairs[:1]
        else:
            rnd.shuffle(pairs)
        return {"k": "map", "pairs": pairs}
    if v["k"] == "arr":
        return {"k": "arr", "items": [permute_value(rnd, x, mode) for x in v["items"]]}
    if v["k"] == "tag":
        return dict(v, c=permute_value(rnd, v["c"], mode))
    return v


def lit_key(e):
    if e["k"] != "ent":
        return None
    k = e["key"]
    if k["kk"] == "bare":
        return json.dumps(C.mk_text(k["n"]), sort_keys=True)
    if k["kk"] == "val":
        return json.dumps(k["v"], sort_keys=True)
    if k["kk"] == "type" and k["t"]["k"] == "lit":
        return json.dumps(k["t"]["v"], sort_keys=True)
    return None


def key_set(rules, e, fuel=3):
    """literal keys a map member can claim (mirrors Relations!KeysE): list of keys, or None when not all of them are literal"""
    if e["k"] == "ent":
        k = lit_key(e)
        return None if k is None else [k]
    if fuel == 0:
        return None
    if e["k"] == "sub":
        alts = e["g"]["galts"]
    elif e["k"] == "name":
        defs = [r for r in rules if r["name"] == e["n"]]
        if not defs or any(r["kind"] != "group" for r in defs):
            return None
        alts = [[r["e"]] for r in defs]
    else:
        return None
    ks = []
    for alt in alts:
        for x in alt:
            sub_ks = key_set(rules, x, fuel - 1)
            if sub_ks is None:
                return None
            ks += sub_ks
    return ks


def disjoint_key_sets(rules, es):
    sets = [key_set(rules, e) for e in es]
    if any(s is None or not s for s in sets):
        return False
    seen = set()
    for s in sets:
        if seen & set(s):
            return False
        seen |= set(s)
    return True


def permute_schema(rnd, rules):
    """returns (rules2, changed)"""
    changed = [False]
    rules0 = rules

    def walk(o, in_map=False):
        if isinstance(o, dict):
            if o.get("k") == "map":
                g = o["g"]
                galts = []
                for alt in g["galts"]:
                    alt2 = [walk(e) for e in alt]
                    keys = [lit_key(e) for e in alt2]
                    if len(alt2) >= 2 and ((all(k is not None for k in keys) and len(set(keys)) == len(keys)) or disjoint_key_sets(rules0, alt2)):
                        perm = list(alt2)
                        rnd.shuffle(perm)
                        if perm != alt2:
                            changed[0] = True
                        alt2 = perm
                    galts.append(alt2)
                return dict(o, g={"galts": galts})
            return {k: walk(v) for k, v in o.items()}
        if isinstance(o, list):
            return [walk(v) for v in o]
        return o
    r2 = walk(copy.deepcopy(rules))
    return r2, changed[0]


def dup_keys(rnd, v):
    """CBOR only: duplicate one physical pair of some map (same key, same or other value)"""
    if v["k"] == "map" and v["pairs"] and rnd.random() < 0.7:
        p = rnd.choice(v["pairs"])
        # an exact physical duplicate: which of the two pairs a member takes cannot matter
        # (duplicates with different values are the listed finding C10-duplicate-key-first-fit)
        q = {"key": p["key"], "val": p["val"]}
        pairs = list(v["pairs"])
        pairs.insert(rnd.randrange(len(pairs) + 1), q)
        return {"k": "map", "pairs": pairs}, True
    if v["k"] == "map":
        for i, p in enumerate(v["pairs"]):
            nv, ch = dup_keys(rnd, p["val"])
            if ch:
                pairs = list(v["pairs"])
                pairs[i] = {"key": p["key"], "val": nv}
                return {"k": "map", "pairs": pairs}, True
    if v["k"] == "arr":
        for i, x in enumerate(v["items"]):
            nv, ch = dup_keys(rnd, x)
            if ch:
                items = list(v["items"])
                items[i] = nv
                return {"k": "arr", "items": items}, True
    return v, False


def overlap_family():
    """fixed family (independent of VERIF_SEED) of maps whose members have OVERLAPPING key domains, with groups of documents that
    differ only in the order of their entries; the inputs listed under finding C10-overlapping-key-domains refer to this family"""
    import itertools
    rnd = random.Random(20260922)
    keys = [G.ktype(G.ref("tstr")), G.ktype(G.ref("int")), G.ktype(G.lit(C.mk_text("a"))), G.ktype(G.ref("any"))]
    vals = [G.ref("int"), G.ref("tstr"), G.ref("any")]
    occs = [(1, 1), (0, 1), (0, -1)]
    members = [G.ent(G.T(v), lo, hi, key=k) for k in keys for v in vals for lo, hi in occs]
    two = [[a, b] for a in members for b in members]
    rnd.shuffle(two)
    schemas = [[G.trule("root", G.T(G.mp(m)))] for m in two[:300]]
    for _ in range(500):
        schemas.append([G.trule("root", G.T(G.mp([rnd.choice(members) for _ in range(3)])))])
    pool = [(C.mk_text("a"), C.mk_int(1)), (C.mk_text("a"), C.mk_text("x")), (C.mk_text("b"), C.mk_int(1)), (C.mk_text("b"), C.mk_text("x")),
            (C.mk_int(7), C.mk_int(0)), (C.mk_int(7), C.mk_text("x"))]
    groups = []
    for n in (2, 3):
        for combo in itertools.combinations(pool, n):
            if len({json.dumps(k, sort_keys=True) for k, _ in combo}) == n:
                groups.append([C.mk_map(list(p)) for p in itertools.permutations(combo)])
    out = []
    for S in schemas:
        for g in rnd.sample(groups, 12):
            out.append((S, g))
    return out


def run_overlap(out, findings, events, metas):
    fam = overlap_family()
    listed = set()
    for f in findings:
        if f["id"] == "C10-overlapping-key-domains":
            listed = set(f.get("inputs", []))
    cases = [{"fmt": "cbor", "rules": S, "val": v} for S, g in fam for v in g]
    ops, res = semcheck.run_cases(cases)
    k = 0
    n_groups = n_listed = 0
    for S, g in fam:
        rs = res[k:k + len(g)]
        os_ = ops[k:k + len(g)]
        k += len(g)
        vs = [observed_verdict(r["obs"]) for r in rs]
        if any(v is None for v in vs):
            out.violation("outcome:overlap", {"property": PID, "kind": "no-verdict", "cddl": os_[0]["cddl"], "docs": [o["hex"] for o in os_]})
            continue
        n_groups += 1
        text = os_[0]["cddl"].strip()
        if text in listed:
            n_listed += 1
            if len(set(vs)) > 1:
                out.known_hit("C10-overlapping-key-domains")
            continue
        for j in range(1, len(g)):
            # a pair with equal verdicts cannot be a violation: only a sample of those is sent to TLC (evidence), every unequal pair is
            if vs[0] == vs[j] and (k + j) % 7 != 0:
                continue
            events.append({"ev": "PermDoc", "fmt": "cbor", "rules": S, "val": g[0], "val2": g[j], "ok": vs[0] == "T", "ok2": vs[j] == "T"})
            metas.append({"relation": "PermDoc", "fmt": "cbor", "cddl": os_[0]["cddl"], "doc": os_[0]["hex"], "cddl2": os_[0]["cddl"], "doc2": os_[j]["hex"],
                          "rules": S, "val": g[0], "rules2": S, "val2": g[j], "accept": vs[0] == "T", "family": "overlapping key domains"})
    return n_groups, n_listed


def run():
    t0 = time.time()
    t = vlib.tier()
    rnd = random.Random(vlib.seed() * 6007 + 10)
    wd = vlib.workdir(PID)
    findings = vlib.load_findings(PID)
    known_dev = sorted(set(f["dev"] for f in findings if f.get("dev")))
    dev_to_id = {f["dev"]: f["id"] for f in findings if f.get("dev")}
    out = vlib.Outcome(PID)
    pairs, states, transitions = relcheck.tlc_scope_pairs(wd, "cbor", ["B"], t == "quick", [])
    base = [("cbor", r, v) for r, v in pairs if has_multi_map(v)]
    base += [("json", r, v) for r, v in pairs if has_multi_map(v) and C.is_json_model(v)]
    n_schemas = 400 if t == "quick" else 8000
    for fmt in ("json", "cbor"):
        for c in semcheck.gen_pairs(rnd, fmt, n_schemas, profile="core"):
            base.append((fmt, c["rules"], c["val"]))
        # maps with (generic) group-rule members next to keyed members: the members' key sets are disjoint, so they may be permuted too
        for c in semcheck.gen_pairs(rnd, fmt, n_schemas // 2, profile="shared"):
            if "map-name-entry" in semcheck.tags_of_rules(c["rules"]):
                base.append((fmt, c["rules"], c["val"]))
    # ---- document permutations
    cases, rel = [], []
    for fmt, r, v in base:
        if has_multi_map(v):
            for mode in ("reverse", "shuffle"):
                v2 = permute_value(rnd, v, mode)
                if v2 != v:
                    rel.append(("PermDoc", fmt, r, v, r, v2))
        r2, ch = permute_schema(rnd, r)
        if ch:
            rel.append(("PermSchema", fmt, r, v, r2, v))
    if t == "quick" and len(rel) > 16000:
        rel = rnd.sample(rel, 16000)
    c1 = [{"fmt": fmt, "rules": r, "val": v} for _, fmt, r, v, _, _ in rel]
    c2 = [{"fmt": fmt, "rules": r2, "val": v2} for _, fmt, _, _, r2, v2 in rel]
    ops1, res1 = semcheck.run_cases(c1)
    ops2, res2 = semcheck.run_cases(c2)
    events, metas, samples = [], [], []
    for (ev, fmt, r, v, r2, v2), o1, a, o2, b in zip(rel, ops1, res1, ops2, res2):
        va, vb = observed_verdict(a["obs"]), observed_verdict(b["obs"])
        meta = {"relation": ev, "fmt": fmt, "cddl": o1["cddl"], "doc": o1.get("json") or o1.get("hex"), "cddl2": o2["cddl"],
                "doc2": o2.get("json") or o2.get("hex"), "rules": r, "val": v, "rules2": r2, "val2": v2}
        if va is None or vb is None:
            if a["obs"].get("kind") == "cddl" and b["obs"].get("kind") == "cddl":
                continue
            out.violation("outcome:%s/%s" % (a["obs"].get("kind"), b["obs"].get("kind")), dict(meta, property=PID, kind="no-verdict"))
            continue
        meta["accept"] = va == "T"
        e = {"ev": ev, "fmt": fmt, "rules": r, "val": v, "ok": va == "T", "ok2": vb == "T"}
        if ev == "PermDoc":
            e["val2"] = v2
        else:
            e["rules2"] = r2
        events.append(e)
        metas.append(meta)
        if len(samples) < 6 and va == "T" and rnd.random() < 0.01:
            samples.append({k: meta[k] for k in ("relation", "fmt", "cddl", "doc", "cddl2", "doc2")})
    # ---- members with overlapping key domains (fixed family; CBOR encoding order)
    ov_groups, ov_listed = run_overlap(out, findings, events, metas)
    # ---- duplicate physical keys (CBOR): oracle-judged
    dup_cases = []
    for fmt, r, v in base:
        if fmt == "cbor":
            v2, ch = dup_keys(rnd, v)
            if ch:
                dup_cases.append({"fmt": "cbor", "rules": r, "val": v2})
    if t == "quick" and len(dup_cases) > 4000:
        dup_cases = rnd.sample(dup_cases, 4000)
    opsd, resd = semcheck.run_cases(dup_cases)
    dev2 = []
    evd, metad = [], []
    for c, o, rr in zip(dup_cases, opsd, resd):
        ov = observed_verdict(rr["obs"])
        if ov is None:
            continue
        evd.append({"fmt": "cbor", "rules": c["rules"], "val": c["val"], "ok": ov == "T"})
        metad.append((c, o))
    vd = semcheck.judge(evd, wd, known_dev, module="Trace_Sem")
    dup_ok = 0
    for i, (c, o) in enumerate(metad):
        v = vd.get(i, "ok")
        if v == "ok":
            dup_ok += 1
        elif v.startswith("known:"):
            out.known_hit(dev_to_id.get(v.split(":", 1)[1], PID + "-" + v.split(":", 1)[1]))
        elif v.startswith("bad"):
            out.violation("dupkeys:" + v + ":" + ",".join(sorted(semcheck.tags_of_rules(c["rules"])))[:200],
                          {"property": PID, "kind": "duplicate-keys", "cddl": o["cddl"], "doc": o["hex"], "rules": c["rules"], "val": c["val"],
                           "expected": v.split(":")[1], "spec": "CddlSem!Expected (maps are sequences of physical pairs)"})
    return relcheck.finish_rel(PID, out, findings, events, metas, wd, known_dev, dev_to_id, t0, states, transitions,
                               "pairs of runs on (schema, document) and (schema, document with the entries of every map permuted: reversed / shuffled), JSON text order and "
                               "CBOR encoding order, and on (schema, schema with key-disjoint literal-key members of map groups permuted); sources: MC_Sem scope B from TLC and "
                               "random schemas/instances/mutants. Trace_Rel re-derives PermEq / MPermSchema and requires equal verdicts. Separately, CBOR documents with a duplicated "
                               "physical pair are judged by the oracle. Non-trivial/distinct = distinct related pairs (not identical) with equal verdicts.",
                               samples, {"duplicate_key_documents": len(evd), "duplicate_key_agree": dup_ok, "exhaustive": False,
                                         "overlapping_key_domain_groups": ov_groups, "overlapping_key_domain_groups_of_listed_schemas": ov_listed},
                               ["the relation is independent of the oracle; the oracle is used for duplicate-key documents and to attribute mismatches to listed deviations"])


def replay(path):
    with open(path) as f:
        p = json.load(f)
    if p.get("kind") == "duplicate-keys":
        from checks import sem_common
        return sem_common.replay(PID, "cbor", path)
    fmt = p["fmt"]
    ops, res = semcheck.run_cases([{"fmt": fmt, "rules": p["rules"], "val": p["val"]}, {"fmt": fmt, "rules": p["rules2"], "val": p["val2"]}])
    a, b = observed_verdict(res[0]["obs"]), observed_verdict(res[1]["obs"])
    print(ops[0]["cddl"].strip(), "|", ops[0].get("json") or ops[0].get("hex"), "->", a)
    print(ops[1]["cddl"].strip(), "|", ops[1].get("json") or ops[1].get("hex"), "->", b)
    if a != b:
        print("VIOLATION property=%s replay=%s" % (PID, path))
        return 1
    return 0
