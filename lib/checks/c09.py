"""C09 - type operators, occurrences and prelude names obey their defining identities.

Identity instances (spec/Relations.tla: IdentSchemas / IdentHolds) are built for random operand types A, B
(including composite ones) in four contexts (top level, array element, map value, generic argument); all schemas of
an instance are run on the same document by both validators and Trace_Rel re-builds the instance from (kind, ctx, A, B),
checks it equals what the harness ran, and checks the boolean equation between the recorded verdicts.  Independent of the oracle."""
import json
import random
import time

import cborlib as C
import cddlgen as G
import relcheck
import semcheck
import vlib
from checks.sem_common import observed_verdict

PID = "C09"
CTXS = ["top", "arr", "mapval", "generic"]


def t2(x):
    return G.paren(G.T(x)) if x["k"] in ("range", "ctl") else x


def wrap_s(ctx, t):
    if ctx == "top":
        return [G.trule("root", t)]
    if ctx == "arr":
        return [G.trule("root", G.T(G.arr([G.ent(t)])))]
    if ctx == "mapval":
        return [G.trule("root", G.T(G.mp([G.ent(t, key=G.kbare("k"))])))]
    arg = t["alts"][0] if len(t["alts"]) == 1 else G.paren(t)
    return [G.trule("root", G.T(G.ref("p", [arg]))), G.trule("p", G.T(G.arr([G.ent(G.T(G.ref("X")))])), params=["X"])]


def wrap_v(ctx, v):
    if ctx == "top":
        return v
    if ctx in ("arr", "generic"):
        return C.mk_arr([v])
    return C.mk_map([(C.mk_text("k"), v)])


def major(mt, has, n):
    return {"k": "major", "mt": mt, "has": has, "num": C.nat_bytes(n)}


def tag(n, t1):
    return {"k": "tag", "tagk": "lit", "tn": C.nat_bytes(n), "t": G.T(t1)}


PRELUDE_BASE = {"uint": major(0, False, 0), "nint": major(1, False, 0), "bstr": major(2, False, 0), "tstr": major(3, False, 0),
                "false": major(7, True, 20), "true": major(7, True, 21), "nil": major(7, True, 22), "undefined": major(7, True, 23),
                "float16": major(7, True, 25), "float32": major(7, True, 26), "float64": major(7, True, 27), "any": {"k": "any"}}
PRELUDE_DEF = {"int": G.T(G.ref("uint"), G.ref("nint")), "number": G.T(G.ref("int"), G.ref("float")), "bool": G.T(G.ref("false"), G.ref("true")),
               "text": G.T(G.ref("tstr")), "bytes": G.T(G.ref("bstr")), "null": G.T(G.ref("nil")),
               "float": G.T(G.ref("float16"), G.ref("float32"), G.ref("float64")),
               "tdate": G.T(tag(0, G.ref("tstr"))), "time": G.T(tag(1, G.ref("number"))), "biguint": G.T(tag(2, G.ref("bstr"))),
               "bignint": G.T(tag(3, G.ref("bstr"))), "bigint": G.T(G.ref("biguint"), G.ref("bignint")), "integer": G.T(G.ref("int"), G.ref("bigint")),
               "unsigned": G.T(G.ref("uint"), G.ref("biguint")), "uri": G.T(tag(32, G.ref("tstr"))), "b64url": G.T(tag(33, G.ref("tstr"))),
               "cbor-any": G.T(tag(55799, G.ref("any"))), "encoded-cbor": G.T(tag(24, G.ref("bstr")))}


def ident_schemas(kind, ctx, a, b):
    if kind == "choice":
        return [wrap_s(ctx, G.T(a, b)), wrap_s(ctx, G.T(b, a)), wrap_s(ctx, G.T(a)), wrap_s(ctx, G.T(b))]
    if kind == "and":
        return [wrap_s(ctx, G.T(G.ctl("and", t2(a), t2(b)))), wrap_s(ctx, G.T(G.ctl("within", t2(a), t2(b)))), wrap_s(ctx, G.T(a)), wrap_s(ctx, G.T(b))]
    if kind == "ne":
        return [wrap_s(ctx, G.T(G.ctl("ne", t2(a), t2(b)))), wrap_s(ctx, G.T(a)), wrap_s(ctx, G.T(G.ctl("eq", t2(a), t2(b))))]
    if kind == "range":
        return [wrap_s(ctx, G.T(G.rng(a, b, True))), wrap_s(ctx, G.T(G.rng(a, b, False)))]
    if kind == "prelude":
        n = a["n"]
        return [wrap_s(ctx, G.T(a)), wrap_s(ctx, G.T(PRELUDE_BASE[n]) if n in PRELUDE_BASE else PRELUDE_DEF[n])]
    raise ValueError(kind)


def gen_instances(rnd, fmt, n):
    out = []
    # JSON: only the prelude definitions that are not spelled with major types or tags (those are CBOR-only constructs, C02)
    pre_j = ["int", "number", "bool", "text", "null"]
    # tdate, time, uri, b64url also accept the untagged content (listed finding C09-untagged-prelude-types): not generated
    pre_c = pre_j + ["uint", "nint", "tstr", "false", "true", "nil", "any", "float", "bytes", "bstr", "undefined", "float16", "float32", "float64",
                     "biguint", "bignint", "bigint", "integer", "unsigned", "cbor-any", "encoded-cbor"]
    while len(out) < n:
        g = G.Gen(rnd, fmt=fmt, max_rules=1, depth=2)
        kind = rnd.choice(["choice", "choice", "and", "ne", "range", "prelude", "prelude"])
        ctx = rnd.choice(CTXS)
        if kind == "choice":
            a, b = g.t1(rnd.choice([0, 1, 2])), g.t1(rnd.choice([0, 1, 2]))
        elif kind == "and":
            a, b = g.t1(rnd.choice([0, 0, 1])), g.t1(rnd.choice([0, 0, 1]))
        elif kind == "ne":
            tn = rnd.choice(["int", "uint", "tstr", "nint", "text", "number"])
            a = G.ref(tn)
            b = G.lit(C.mk_text(rnd.choice(["a", "b", ""]))) if tn in ("tstr", "text") else G.lit(C.mk_int(rnd.choice([-2, -1, 0, 1, 2, 255])))
        elif kind == "range":
            lo, hi = sorted([rnd.choice([-3, -1, 0, 1, 2, 5, 255, 256]), rnd.choice([-3, -1, 0, 1, 2, 5, 255, 256])])
            a, b = G.lit(C.mk_int(lo)), G.lit(C.mk_int(hi))
        else:
            a = G.ref(rnd.choice(pre_c if fmt == "cbor" else pre_j))
            b = a
        if g.pending or g.generic_defs or g.socket_defs or not G.in_fragment([G.trule("x", G.T(a, b))]):
            continue
        # documents: instances of A, of B, boundary values, mutants, junk
        vals = []
        for _ in range(4):
            src = rnd.choice([a, b])
            rules = [G.trule("root", G.T(src))]
            v = G.Inst(rnd, rules, fmt).of_t1(src)
            if rnd.random() < 0.4:
                v = G.mutate(rnd, v, fmt)
            vals.append(v)
        if kind == "range":
            vals += [b["v"], a["v"], C.mk_int(C.int_val(b["v"]) - 1), C.mk_int(C.int_val(b["v"]) + 1)]
        if kind == "ne":
            vals.append(b["v"])
        if kind == "prelude" and fmt == "cbor":
            vals += [C.rand_value(rnd, depth=1, full=True) for _ in range(3)]
        for v in vals:
            if fmt == "json" and not C.is_json_model(v):
                continue
            out.append((kind, ctx, a, b, v))
    return out


def run():
    t0 = time.time()
    t = vlib.tier()
    rnd = random.Random(vlib.seed() * 5003 + 9)
    wd = vlib.workdir(PID)
    findings = vlib.load_findings(PID)
    known_dev = sorted(set(f["dev"] for f in findings if f.get("dev")))
    dev_to_id = {f["dev"]: f["id"] for f in findings if f.get("dev")}
    out = vlib.Outcome(PID)
    n = 700 if t == "quick" else 12000
    events, metas, samples = [], [], []
    scope_states = [0, 0]
    for fmt in ("json", "cbor"):
        insts = gen_instances(rnd, fmt, n)
        cases, spans = [], []
        for kind, ctx, a, b, v in insts:
            ss = ident_schemas(kind, ctx, a, b)
            w = wrap_v(ctx, v)
            spans.append((len(cases), len(ss)))
            for s in ss:
                cases.append({"fmt": fmt, "rules": s, "val": w})
        ops, res = semcheck.run_cases(cases)
        for (kind, ctx, a, b, v), (lo, k) in zip(insts, spans):
            runs, bad = [], False
            for i in range(lo, lo + k):
                ov = observed_verdict(res[i]["obs"])
                if ov is None:
                    bad = True
                    break
                runs.append({"rules": cases[i]["rules"], "ok": ov == "T"})
            meta = {"kind": kind, "ctx": ctx, "fmt": fmt, "schemas": [ops[i]["cddl"] for i in range(lo, lo + k)],
                    "doc": ops[lo].get("json") or ops[lo].get("hex"), "a": a, "b": b, "val": v}
            if bad:
                kinds = [res[i]["obs"].get("kind") or sorted(res[i]["obs"])[0] for i in range(lo, lo + k)]
                if all(x in ("cddl", "ok", "validation") for x in kinds):
                    continue      # a schema text of the instance is rejected by the parser: parser properties are C03
                out.violation("outcome:" + "/".join(kinds), dict(meta, property=PID, kind_="no-verdict"))
                continue
            meta["accept"] = runs[0]["ok"]
            meta["verdicts"] = [r["ok"] for r in runs]
            events.append({"ev": "Ident", "kind": kind, "ctx": ctx, "fmt": fmt, "a": a, "b": b, "val": v, "runs": runs, "rules": runs[0]["rules"]})
            metas.append(meta)
            if len(samples) < 8 and runs[0]["ok"] and rnd.random() < 0.02:
                samples.append({k2: meta[k2] for k2 in ("kind", "ctx", "fmt", "schemas", "doc", "verdicts")})
        # occurrence spellings: ? * + versus 0*1 0* 1*
        occ_cases = []
        # every (schema, value) state of the MC_Sem scopes A (arrays) and B (maps: optional / repeated members with cut and non-cut keys
        # followed by wildcard members) enumerated by TLC, then random schemas
        scope_pairs, st_, tr_ = relcheck.tlc_scope_pairs(wd, fmt, ["A", "B"], t == "quick", [])
        scope_states[0] += st_
        scope_states[1] += tr_
        base_occ = [{"fmt": fmt, "rules": r_, "val": v_} for r_, v_ in scope_pairs if fmt == "cbor" or C.is_json_model(v_)]
        for c in base_occ + semcheck.gen_pairs(rnd, fmt, n // 4, per_schema=4):
            txt = G.render(c["rules"])
            G.LONG_OCC = True
            try:
                txt2 = G.render(c["rules"])
            finally:
                G.LONG_OCC = False
            if txt2 != txt:
                occ_cases.append((c, txt, txt2))
        if t == "quick" and len(occ_cases) > 5000:
            occ_cases = rnd.sample(occ_cases, 5000)
        oc1 = [dict(c, cddl=t1) for c, t1, _ in occ_cases]
        oc2 = [dict(c, cddl=t2_) for c, _, t2_ in occ_cases]
        ops1, res1 = semcheck.run_cases(oc1)
        ops2, res2 = semcheck.run_cases(oc2)
        for (c, t1, t2_), r1, r2 in zip(occ_cases, res1, res2):
            a_, b_ = observed_verdict(r1["obs"]), observed_verdict(r2["obs"])
            meta = {"kind": "occurrence-spelling", "fmt": fmt, "schemas": [t1, t2_], "doc": C.to_json_text(c["val"]) if fmt == "json" else C.encode(c["val"]).hex(),
                    "rules": c["rules"], "val": c["val"]}
            if a_ is None or b_ is None:
                if r1["obs"].get("kind") == "cddl" and r2["obs"].get("kind") == "cddl":
                    continue
                out.violation("outcome:occ:%s/%s" % (r1["obs"].get("kind"), r2["obs"].get("kind")), dict(meta, property=PID))
                continue
            meta["accept"] = a_ == "T"
            events.append({"ev": "Occ", "sp1": "?", "sp2": "0*1", "fmt": fmt, "rules": c["rules"], "val": c["val"], "ok": a_ == "T", "ok2": b_ == "T"})
            metas.append(meta)
    return relcheck.finish_rel(PID, out, findings, events, metas, wd, known_dev, dev_to_id, t0, scope_states[0], scope_states[1],
                               "identity instances (A / B vs B / A vs A, B; .and / .within vs A, B; .ne vs T and .eq; a..b vs a...b; prelude name vs its Appendix D "
                               "definition; ? * + vs 0*1 0* 1*) over random operand types incl. arrays/maps/choices/controls, in 4 contexts (top, array element, map value, "
                               "generic argument), each run by both validators on instances of A, of B, boundary values, mutants and junk; Trace_Rel rebuilds the "
                               "instance schemas from (kind, ctx, A, B), checks they are what was run and checks the equation. Non-trivial/distinct = distinct instances whose equation holds.",
                               samples, {"exhaustive": False},
                               ["independent of the oracle; the oracle is used only to attribute a broken equation to a listed deviation",
                                "states/transitions: the trace specification steps once per event (no exhaustive scope in this check)"])


def replay(path):
    with open(path) as f:
        p = json.load(f)
    print(json.dumps({k: p[k] for k in ("kind", "ctx", "fmt", "schemas", "doc", "verdicts") if k in p}, indent=1))
    fmt = p["fmt"]
    key = "json" if fmt == "json" else "hex"
    ops = [{"id": i, "op": "validate_" + ("json" if fmt == "json" else "cbor"), "cddl": s, key: p["doc"]} for i, s in enumerate(p["schemas"])]
    res = vlib.execute(ops)
    print("now:", [observed_verdict(r["obs"]) for r in res])
    print("VIOLATION property=%s replay=%s" % (PID, path))
    return 1
