"""C18 - the command-line tool reports exactly what the library decides.

spec/Cli.tla is the state machine of one 'cddl validate' invocation (CheckSchema, NextDoc per document in route order, Finish);
MC_Cli model-checks it for every invocation over 4 routes x document classes x --ci x schema state (invariants CiStatus,
ReportsFaithful, AllReported) and prints the expected report sequence and exit status of every terminal state.  Each invocation is
made concrete (files, argv, stdin; documents whose LIBRARY verdict with the same features - obtained from a direct library call in
the executor - equals the class of the abstract document, including documents whose verdict depends on --features) and the real
binary built from /repo is run; its per-document reports and exit status must equal the specification's."""
import json
import os
import random
import re
import shutil
import subprocess
import tempfile
import time
import concurrent.futures

import vlib

PID = "C18"
SCHEMA = 'root = [uint, ? any] / {"f": (uint .feature "f1")} / [+ [tstr, uint]] / [true, fc]\nfc = "v" .feature "f1" / 2 .feature "f1"\n'
BAD_SCHEMA = "root = [ uint\n"
# candidate documents per route: (bytes/text, depends on features?)
JSON_DOCS = ["[true,3]", "[true,2]", "[1]", "[2, \"x\"]", "[\"x\"]", "{}", "{\"f\":\"x\"}", "{\"f\":1}", "true", "[1"]
CBOR_DOCS = ["82f503", "82f502", "8101", "820261", "816178", "a0", "a161666178", "a1616601", "f5", "81"]
CSV_DOCS = ["a,1\n", "a,1\nb,2\n", "a,b\n", "1,a\n"]
STDIN_CBOR = ["82f503", "82f502", "8101", "816178", "8200f5", "81f6", "a16166f4", "a161661880"]


def build_cli():
    tgt = os.path.join(vlib.HARNESS, "target", "cli")
    env = dict(os.environ, CARGO_NET_OFFLINE="true")
    p = subprocess.run(["cargo", "build", "--bin", "cddl", "--offline", "--target-dir", tgt], cwd=vlib.REPO, env=env,
                       stdout=subprocess.PIPE, stderr=subprocess.STDOUT, text=True)
    if p.returncode != 0:
        raise vlib.ToolError("cli build failed:\n" + p.stdout[-3000:])
    return os.path.join(tgt, "debug", "cddl")


def lib_verdicts(feats):
    """library verdict of every candidate document with the given features (direct library calls in the executor)"""
    ops = []
    f = {"features": feats} if feats is not None else {}
    for d in JSON_DOCS:
        ops.append(dict({"id": len(ops), "op": "validate_json", "cddl": SCHEMA, "json": d}, **f))
    for d in CBOR_DOCS + STDIN_CBOR:
        ops.append(dict({"id": len(ops), "op": "validate_cbor", "cddl": SCHEMA, "hex": d}, **f))
    for d in CSV_DOCS:
        for hdr in (False, True):
            ops.append(dict({"id": len(ops), "op": "validate_csv", "cddl": SCHEMA, "csv": d, "header": hdr}, **f))
    res = vlib.execute(ops)
    out = {}
    for o, r in zip(ops, res):
        k = r["obs"].get("kind")
        key = (o["op"], o.get("json") or o.get("hex") or o.get("csv"), o.get("header", False))
        out[key] = (k == "ok")
    return out


def run_one(args):
    cli, inv, exp_reports, exp_exit, lv, seed = args
    rnd = random.Random(seed)
    d = tempfile.mkdtemp(prefix="cli_", dir=os.path.join(vlib.VERIF, "work", PID))
    try:
        feats = ["f1"] if inv["feat"] else None
        verd = lv[bool(inv["feat"])]
        argv = [cli] + (["--ci"] if inv["ci"] else []) + ["validate"]
        sp = os.path.join(d, "schema.cddl")
        if inv["schema"] != "missing":
            with open(sp, "w") as f:
                f.write(SCHEMA if inv["schema"] == "ok" else BAD_SCHEMA)
        argv += ["--cddl", sp]
        if feats:
            argv += ["--features", ",".join(feats)]
        hdr = rnd.random() < 0.3
        stdin_data = None
        names = []

        def pick(cands, op, h=False):
            """with --features prefer documents whose library verdict depends on the feature list"""
            if inv["feat"]:
                sens = [x for x in cands if lv[False][(op, x, h)] != lv[True][(op, x, h)]]
                if sens and rnd.random() < 0.8:
                    return rnd.choice(sens)
            return rnd.choice(cands)
        for k, doc in enumerate(inv["docs"]):
            route = doc["route"]
            want = doc["lib"]
            if route == "json":
                path = os.path.join(d, "d%d.json" % k)
                if doc["exists"]:
                    cands = [x for x in JSON_DOCS if verd[("validate_json", x, False)] == want]
                    open(path, "w").write(pick(cands, "validate_json"))
                argv += ["--json", path]
                names.append(path)
            elif route == "cbor":
                path = os.path.join(d, "d%d.cbor" % k)
                if doc["exists"]:
                    cands = [x for x in CBOR_DOCS if verd[("validate_cbor", x, False)] == want]
                    open(path, "wb").write(bytes.fromhex(pick(cands, "validate_cbor")))
                argv += ["--cbor", path]
                names.append(path)
            elif route == "csv":
                path = os.path.join(d, "d%d.csv" % k)
                if doc["exists"]:
                    cands = [x for x in CSV_DOCS if verd[("validate_csv", x, hdr)] == want]
                    if not cands:
                        return ("skip", inv, None)
                    open(path, "w").write(pick(cands, "validate_csv", hdr))
                argv += ["--csv", path]
                names.append(path)
            elif route == "stdin-json":
                cands = [x for x in JSON_DOCS if verd[("validate_json", x, False)] == want]
                stdin_data = pick(cands, "validate_json").encode()
                argv += ["--stdin"]
                names.append("stdin")
            else:
                cands = [x for x in STDIN_CBOR if verd[("validate_cbor", x, False)] == want]
                stdin_data = bytes.fromhex(pick(cands, "validate_cbor"))
                argv += ["--stdin"]
                names.append("stdin")
        if hdr and any(doc["route"] == "csv" for doc in inv["docs"]):
            argv += ["--csv-header"]
        p = subprocess.run(argv, input=stdin_data if stdin_data is not None else b"", stdout=subprocess.PIPE, stderr=subprocess.STDOUT, timeout=60)
        text = p.stdout.decode("utf-8", "replace")
        text = re.sub(r"\x1b\[[0-9;]*m", "", text)
        reports = []
        for line in text.splitlines():
            if line.startswith("Error:"):
                continue          # with --ci the process-level error repeats the last logged report
            if re.search(r"Validation (of .*|from stdin) is successful", line):
                reports.append("success")
            elif re.search(r"Validation (of .*|from stdin) failed", line):
                reports.append("failure")
            elif re.search(r"(File|CBOR binary file|CSV file) .* does not exist", line):
                reports.append("missing")
        got_exit = 0 if p.returncode == 0 else 1
        ok = reports == exp_reports and got_exit == exp_exit
        return ("ok" if ok else "bad", inv, {"argv": [a.replace(d, "<tmp>") for a in argv], "expected_reports": exp_reports, "expected_exit": exp_exit,
                                             "reports": reports, "exit": p.returncode, "output": text[-1500:].replace(d, "<tmp>"),
                                             "stdin": stdin_data.hex() if stdin_data else None})
    finally:
        shutil.rmtree(d, ignore_errors=True)


def run():
    t0 = time.time()
    t = vlib.tier()
    rnd = random.Random(vlib.seed() * 1801 + 18)
    wd = vlib.workdir(PID)
    findings = vlib.load_findings(PID)
    out = vlib.Outcome(PID)
    cli = build_cli()
    cfg = os.path.join(wd, "MC_Cli.cfg")
    vlib.write_cfg(cfg, invariants=["InvCi", "InvFaithful", "InvAll", "Emit"])
    res = vlib.tlc("MC_Cli", cfg, wd, workers=8, timeout=1800)
    vlib.tlc_must(res, "MC_Cli (CiStatus, ReportsFaithful, AllReported)")
    gen = [o for tag, o in res.lines if tag == "R"]
    if not gen:
        raise vlib.ToolError("no replay records")
    n_terminal = len(gen)
    if t == "quick":
        gen = rnd.sample(gen, 2500)
    lv = {False: lib_verdicts(None), True: lib_verdicts(["f1"])}
    # documents whose library verdict depends on --features must exist, otherwise the feature flag is not exercised
    sens = [k for k in lv[False] if lv[False][k] != lv[True][k]]
    jobs = [(cli, g["inv"], g["reports"], g["exit"], lv, rnd.randrange(1 << 30)) for g in gen]
    stats = {"ok": 0, "bad": 0, "skip": 0}
    samples = []
    with concurrent.futures.ThreadPoolExecutor(max_workers=14) as ex:
        for status, inv, info in ex.map(run_one, jobs):
            stats[status] += 1
            if status == "bad":
                sig = "reports" if info["reports"] != info["expected_reports"] else "exit"
                routes = ",".join(sorted(set(d["route"] for d in inv["docs"])))
                out.violation("%s:ci=%s:feat=%s:schema=%s:%s" % (sig, inv["ci"], inv["feat"], inv["schema"], routes), dict(info, property=PID, invocation=inv, spec="Cli.tla"))
            elif status == "ok" and len(samples) < 3 and len(inv["docs"]) >= 3:
                samples.append({"argv": info["argv"], "reports": info["reports"], "exit": info["exit"]})
    wall = time.time() - t0
    cov = {"states": res.distinct, "transitions": res.generated, "traces_validated_against_impl": stats["ok"] + stats["bad"], "evaluations": len(jobs),
           "distinct_nontrivial": stats["ok"], "rule": "TLC explores the Cli machine for every invocation over routes {--json x<=2, --cbor x<=2, --csv x<=1, --stdin (JSON or CBOR)} x "
           "document classes {success, failure, missing} x --ci x --features x schema {ok, bad, missing} (%d terminal states, invariants CiStatus / ReportsFaithful / AllReported); "
           "invocations are made concrete with documents whose library verdict (direct library call, same features) equals the abstract class and run through the binary built from "
           "/repo. Non-trivial/distinct = invocations whose report sequence and exit status equal the specification's." % n_terminal,
           "samples": samples or [{"note": "none"}], "exhaustive": t != "quick", "terminal_states": n_terminal, "feature_sensitive_documents": len(sens), "skipped": stats["skip"],
           "checker_cmd": "tlc MC_Cli ; target/cli/debug/cddl"}
    if stats["ok"] < 500 or not sens:
        raise vlib.ToolError("vacuity gate %s sens=%d" % (stats, len(sens)))
    vlib.write_evidence(PID, "model_checking", cov, wall, len(out.violations),
                        ["the library verdict of every document comes from a direct library call in the executor with the same features (independent of the C01 oracle)",
                         "report lines are recognised by their fixed wording; exit status is abstracted to zero / non-zero", "compile-cddl is covered by the C03/C12 parser checks of the same entry point"])
    return out.finish(findings)


def replay(path):
    p = json.load(open(path))
    print(json.dumps({k: p[k] for k in ("argv", "expected_reports", "expected_exit", "reports", "exit")}, indent=1))
    print(p.get("output", "")[-800:])
    print("VIOLATION property=%s replay=%s" % (PID, path))
    return 1
