"""C15 / C20: span trees, parse-error positions and ParentVisitor answers of the real code, judged by
spec/AstTree.tla through Trace_Tree."""
import collections
import json
import random
import time

import semcheck
import syngen
import vlib

ALPH = "abTx09 =/,:;()[]{}<>#.*+?~&^-\"'$\n\u00e9\u20ac"


def docs_for(rnd, n, multibyte=True, repeats=False):
    out = []
    for i in range(n):
        sg = syngen.SynGen(rnd, depth=rnd.choice([1, 2, 2, 3]))
        rules = sg.document()
        if repeats and rules:
            # repeated identical sub-expressions: duplicate a choice / an entry in place
            r0 = rules[rnd.randrange(len(rules))]
            if r0["kind"] == "type" and r0["t"]["alts"]:
                a = rnd.choice(r0["t"]["alts"])
                r0["t"]["alts"].insert(rnd.randrange(len(r0["t"]["alts"]) + 1), json.loads(json.dumps(a)))
        text = syngen.join(syngen.Renderer(rnd).document(rules), rnd, comments=rnd.random() < 0.4, crlf=rnd.random() < 0.2,
                           final_comment=rnd.random() < 0.1)
        out.append(text)
    return out


def cps(t):
    return [ord(c) for c in t]


def chunked_judge(events, wd, chunk):
    return semcheck.judge(events, wd, [], module="Trace_Tree", chunk=chunk, workers=10, timeout=3000)
