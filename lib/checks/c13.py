"""C13 - CSV validation equals JSON validation of the draft's data-model mapping.

spec -> impl : MC_Csv enumerates every text over a 10-symbol alphabet up to the bound x header flag; every well-formed one
               is a state with the array of arrays Csv!MapCsv assigns; parse_csv_to_json is run on each and compared field by
               field (kind and value), and validate_csv_from_str is compared with validate_json_from_str on the SPEC-mapped document.
impl -> spec : random CSV texts (quoted fields, doubled quotes, embedded separators and line breaks, CRLF/LF, ragged rows,
               numeric look-alikes such as 007, 1e5, +3, 0x10, NaN, inf, 18446744073709551616) are recorded and judged by Trace_Csv."""
import json
import os
import random
import time

import cborlib as C
import semcheck
import vlib

PID = "C13"
FIELDS = ["", "a", "abc", "007", "1e5", "+3", "-3", "0x10", "NaN", "inf", "-inf", "infinity", "1.", ".5", "-0", "0", "1.5", "1.50", "2.5e-1", "1E2", "18446744073709551615",
          "18446744073709551616", "-9223372036854775808", "-9223372036854775809", "1e400", " 1", "1 ", "1,5", "say \"hi\"", "line\nbreak", "cr\r\nlf", "é€", "true", "null", "1_000",
          "12abc", "--1", "+", "-", "e5", "1e", "0.0", "-0.0", "00", "9007199254740993", "1e-2", "123456789012345678901234567890"]
SCHEMAS = ["t = [* [* (int / float / tstr)]]", "t = [* [* tstr]]", "t = [+ [tstr, int]]", "t = [[* tstr], * [* number]]", "t = [* [uint, ? tstr]]", "t = [* [* any]]",
           "t = [2* [1*3 (tstr / number)]]", "t = [* [tstr .size 1, number]]", "t = [* [* (-10..10 / tstr)]]"]


def data_of_json(v):
    if isinstance(v, bool) or v is None:
        raise ValueError
    if isinstance(v, int):
        return C.mk_int(v)
    if isinstance(v, float):
        return C.mk_float(v)
    if isinstance(v, str):
        return C.mk_text(v)
    raise ValueError(type(v))


def render_field(rnd, f):
    need = any(c in f for c in ",\"\n\r")
    if need or rnd.random() < 0.2:
        return '"' + f.replace('"', '""') + '"'
    return f


def mapped_json(rows):
    """JSON text of the document the specification maps the CSV to (only for rows without approximate numbers)"""
    out = []
    for r in rows:
        fs = []
        for x in r:
            if x["k"] in ("num", "either"):
                return None
            if x["k"] == "text":
                fs.append(json.dumps("".join(chr(c) for c in x["cp"]), ensure_ascii=False))
            else:
                fs.append(C.to_json_text(x))
        out.append("[" + ",".join(fs) + "]")
    return "[" + ",".join(out) + "]"


def run():
    t0 = time.time()
    t = vlib.tier()
    rnd = random.Random(vlib.seed() * 1301 + 13)
    wd = vlib.workdir(PID)
    findings = vlib.load_findings(PID)
    out = vlib.Outcome(PID)
    cfg = os.path.join(wd, "MC_Csv.cfg")
    vlib.write_cfg(cfg, constants={"Alpha": "{97, 49, 48, 45, 46, 101, 44, 34, 10, 13}", "MaxLen": 4 if t == "quick" else 5}, invariants=["Emit"])
    res = vlib.tlc("MC_Csv", cfg, wd, workers=8, timeout=2400)
    vlib.tlc_must(res, "MC_Csv")
    gen = [o for tag, o in res.lines if tag == "R"]
    if not gen:
        raise vlib.ToolError("no replay records")
    if t == "thorough" and len(gen) > 80000:
        gen = rnd.sample(gen, 80000)
    ops = [{"id": i, "op": "csv_to_json", "csv": "".join(chr(c) for c in g["cs"]), "header": g["header"]} for i, g in enumerate(gen)]
    results = vlib.execute(ops)
    events, metas = [], []
    agree = 0
    samples = []
    for g, o, r in zip(gen, ops, results):
        obs = r["obs"]
        if "ok" not in obs:
            out.violation("outcome:" + sorted(obs)[0], {"property": PID, "csv": o["csv"], "observed": obs})
            continue
        if not obs["ok"]:
            out.violation("wellformed-csv-rejected", {"property": PID, "csv": o["csv"], "header": g["header"], "observed": obs.get("msg"), "expected_rows": g["rows"]})
            continue
        try:
            rows = [[data_of_json(x) for x in row] for row in obs["json"]]
        except ValueError:
            out.violation("non-scalar-field", {"property": PID, "csv": o["csv"], "observed": obs["json"]})
            continue
        events.append({"ev": "Map", "cs": g["cs"], "header": g["header"], "ok": True, "rows": rows})
        metas.append({"csv": o["csv"], "header": g["header"], "observed": obs["json"], "source": "TLC scope"})
    nscope = len(events)
    # pairs: validate_csv vs validate_json on the spec-mapped document (scope sample + schemas)
    pair_src = rnd.sample(gen, min(len(gen), 1500 if t == "quick" else 12000))
    pops, pmeta = [], []
    for g in pair_src:
        doc = mapped_json(g["rows"])
        if doc is None:
            continue
        sch = rnd.choice(SCHEMAS)
        csvt = "".join(chr(c) for c in g["cs"])
        pops.append({"id": len(pops), "op": "validate_csv", "cddl": sch, "csv": csvt, "header": g["header"]})
        pops.append({"id": len(pops), "op": "validate_json", "cddl": sch, "json": doc})
        pmeta.append((g, sch, csvt, doc))
    # ---- random CSV texts
    rtexts = []
    for _ in range(400 if t == "quick" else 10000):
        nrows = rnd.randint(1, 4)
        nl = rnd.choice(["\n", "\r\n"])
        rows = []
        for _ in range(nrows):
            rows.append(",".join(render_field(rnd, rnd.choice(FIELDS)) for _ in range(rnd.randint(1, 4))))
        text = nl.join(rows) + (nl if rnd.random() < 0.7 else "")
        rtexts.append((text, rnd.random() < 0.5))
    rops = [{"id": i, "op": "csv_to_json", "csv": tx, "header": h} for i, (tx, h) in enumerate(rtexts)]
    rres = vlib.execute(rops)
    for (tx, h), r in zip(rtexts, rres):
        obs = r["obs"]
        if "ok" not in obs:
            out.violation("outcome:" + sorted(obs)[0], {"property": PID, "csv": tx, "observed": obs})
            continue
        rows = []
        if obs["ok"]:
            try:
                rows = [[data_of_json(x) for x in row] for row in obs["json"]]
            except ValueError:
                out.violation("non-scalar-field", {"property": PID, "csv": tx, "observed": obs["json"]})
                continue
        events.append({"ev": "Map", "cs": [ord(c) for c in tx], "header": h, "ok": bool(obs["ok"]), "rows": rows})
        metas.append({"csv": tx, "header": h, "observed": obs.get("json"), "source": "random"})
        # pair on the implementation-mapped... no: the pair uses the spec mapping, which needs TLC; random texts take part in Map events only
    pres = vlib.execute(pops)
    for k, (g, sch, csvt, doc) in enumerate(pmeta):
        a, b = pres[2 * k]["obs"], pres[2 * k + 1]["obs"]
        ka, kb = a.get("kind"), b.get("kind")
        if ka not in ("ok", "validation") or kb not in ("ok", "validation"):
            out.violation("pair-outcome:%s/%s" % (ka, kb), {"property": PID, "cddl": sch, "csv": csvt, "json": doc, "csv_obs": a, "json_obs": b})
            continue
        events.append({"ev": "Pair", "cs": g["cs"], "header": g["header"], "okcsv": ka == "ok", "okjson": kb == "ok"})
        metas.append({"cddl": sch, "csv": csvt, "header": g["header"], "mapped_json": doc, "csv_ok": ka == "ok", "json_ok": kb == "ok", "source": "pair"})
    verdicts = semcheck.judge(events, wd, [], module="Trace_Csv", chunk=4000)
    ok = outside = 0
    pair_acc = pair_rej = 0
    for i, m in enumerate(metas):
        v = verdicts.get(i, "ok")
        if v == "ok":
            ok += 1
            if m["source"] == "pair":
                if m["csv_ok"]:
                    pair_acc += 1
                else:
                    pair_rej += 1
            if len(samples) < 5 and m["source"] != "TLC scope" and len(m["csv"]) < 60 and rnd.random() < 0.05:
                samples.append(m)
        elif v == "outside":
            outside += 1
        else:
            out.violation(v + ":" + m["source"], dict(m, property=PID, verdict=v, spec="Csv!MapCsv"))
    vlib.rerun_witnesses(out, findings)
    wall = time.time() - t0
    cov = {"states": res.distinct, "transitions": res.generated, "traces_validated_against_impl": len(events), "evaluations": len(events), "distinct_nontrivial": ok,
           "rule": "TLC enumerates every text over {a,1,0,-,.,e,',',\",LF,CR} up to the bound x header flag (states); every well-formed one is replayed into parse_csv_to_json and compared "
                   "with Csv!MapCsv by Trace_Csv; a sample is also validated as CSV and as the spec-mapped JSON document against 9 schemas (Pair); random texts built from a table of 47 "
                   "numeric look-alike / quoted / multi-line fields are recorded and judged. Non-trivial/distinct = events inside the fragment on which implementation and specification agree.",
           "samples": samples or [{"note": "none"}], "exhaustive": True, "scope_events": nscope, "random_events": len(rtexts), "pairs_both_accept": pair_acc, "pairs_both_reject": pair_rej,
           "outside_fragment": outside, "known_finding_hits": out.known, "checker_cmd": "tlc MC_Csv ; tlc Trace_Csv"}
    if ok < 200 or pair_acc < 20 or pair_rej < 20:
        raise vlib.ToolError("vacuity gate ok=%d pairs=%d/%d" % (ok, pair_acc, pair_rej))
    vlib.write_evidence(PID, "model_checking", cov, wall, len(out.violations),
                        ["ill-formed CSV (quote inside an unquoted field, text after a closing quote, unterminated quote, lone CR) and blank lines are outside the fragment",
                         "numbers beyond 64 bits / not exactly representable decimal fractions are compared by kind only", "RFC 4180 and the draft's mapping transcribed from memory"])
    return out.finish(findings)


def replay(path):
    p = json.load(open(path))
    r = vlib.execute([{"id": 0, "op": "csv_to_json", "csv": p["csv"], "header": p.get("header", False)}])[0]["obs"]
    print(repr(p["csv"]), "header=", p.get("header"), "->", r.get("json") if r.get("ok") else r)
    print("recorded verdict:", p.get("verdict"))
    print("VIOLATION property=%s replay=%s" % (PID, path))
    return 1
