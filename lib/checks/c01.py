from checks import sem_common
PID = "C01"
def run():
    return sem_common.run_sem(PID, "json")
def replay(path):
    return sem_common.replay(PID, "json", path)
