from checks import doc_common
PID = "C16"
def run():
    return doc_common.run_sessions(PID, True, lambda v: True, 500, 12000,
        "sessions D -> A1 -> T1 -> A2 -> T2 on generated documents with comments in random S positions (before/after rules, between choices, inside groups, after commas, "
        "inside parenthesised types, next to string literals containing ';') plus hand-written placements; Trace_Doc checks: every comment attached to A1 comes from the source "
        "comment multiset (attached at most once, text unchanged), T1 is accepted and parses to the same rules (a comment never absorbs code), the comments attached after re-parsing "
        "are the same multiset (each emitted exactly once, as a comment), T2 = T1. Non-trivial/distinct = sessions satisfying all invariants.")
def replay(path):
    import json, vlib
    from checks.doc_common import comments_of_debug
    p = json.load(open(path))
    r = vlib.execute([{"id": 0, "op": "parse", "ast": True, "comments": True, "roundtrip": True, "cddl": p["cddl"]}])[0]["obs"]
    print(p["cddl"]); print("formatted:\n" + str(r.get("fmt")))
    c1, c2 = comments_of_debug(r.get("comments", "")), comments_of_debug(r.get("comments2", ""))
    print("attached:", c1, "after reparse:", c2, "reparse ok:", r.get("ok2"), "same ast:", r.get("ast") == r.get("ast2"))
    bad = not r.get("ok2") or r.get("ast") != r.get("ast2") or sorted(c1) != sorted(c2) or r.get("fmt") != r.get("fmt2")
    if bad:
        print("VIOLATION property=%s replay=%s" % (PID, path))
    return 1 if bad else 0
