"""C06 / C16: document sessions D -Parse-> A1 -Format-> T1 -Parse-> A2 -Format-> T2 recorded from the real
parser/printer and validated against spec/DocSession.tla by Trace_Doc (each event is a DocSession action; the session
invariants MeaningPreserved, Idempotent, CommentsSurvive are evaluated at the end of every session)."""
import collections
import json
import random
import re
import time

import semcheck
import syngen
import vlib


def rust_debug_strings(body):
    """string literals inside a Rust Debug list body"""
    out, i = [], 0
    while i < len(body):
        if body[i] == '"':
            j = i + 1
            s = ""
            while j < len(body) and body[j] != '"':
                if body[j] == "\\":
                    c = body[j + 1]
                    if c == "n":
                        s += "\n"
                    elif c == "t":
                        s += "\t"
                    elif c == "r":
                        s += "\r"
                    elif c == "0":
                        s += "\0"
                    elif c == "u":
                        k = body.index("}", j)
                        s += chr(int(body[j + 3:k], 16))
                        j = k - 1
                    else:
                        s += c
                    j += 2
                else:
                    s += body[j]
                    j += 1
            out.append(s)
            i = j + 1
        else:
            i += 1
    return out


def comments_of_debug(dbg):
    out = []
    i = 0
    while True:
        i = dbg.find("Comments([", i)
        if i < 0:
            break
        j = i + len("Comments([")
        depth = 1
        k = j
        instr = False
        while k < len(dbg) and depth > 0:
            c = dbg[k]
            if instr:
                if c == "\\":
                    k += 1
                elif c == '"':
                    instr = False
            else:
                if c == '"':
                    instr = True
                elif c == "[":
                    depth += 1
                elif c == "]":
                    depth -= 1
            k += 1
        out += rust_debug_strings(dbg[j:k - 1])
        i = k
    # a comment consisting of a bare newline marker is layout, not text
    return [c for c in out if c != "\n"]


def sessions(rnd, n, with_comments, depth_choices=(1, 2, 2, 3)):
    docs = []
    for i in range(n):
        sg = syngen.SynGen(rnd, depth=rnd.choice(depth_choices))
        rules = sg.document()
        src = []
        text = syngen.join(syngen.Renderer(rnd).document(rules), rnd, comments=with_comments, crlf=rnd.random() < 0.1,
                           final_comment=with_comments and rnd.random() < 0.1, collect=src)
        docs.append((rules, text, src))
    return docs


def run_sessions(pid, with_comments, verdict_filter, n_quick, n_thorough, rule_text):
    t0 = time.time()
    t = vlib.tier()
    rnd = random.Random(vlib.seed() * 4001 + (6 if not with_comments else 16))
    wd = vlib.workdir(pid)
    findings = vlib.load_findings(pid)
    fsig = {f["sig"]: f["id"] for f in findings if f.get("sig")}
    out = vlib.Outcome(pid)
    docs = sessions(rnd, n_quick if t == "quick" else n_thorough, with_comments)
    # hand-written shapes that matter for the property
    extra = ["a = ~b\nb = [int]\n", "a = 1.0 / 1 / 1e3 / 0x1p4 / -0.0\n", 'a = "q\\"x\\\\y" / "tab\\t" / "\\u{1F600}"\n', "a = [ ? b, * c, + d, 2*3 e, 0*1 f, 1* g ]\n",
             "a = { \"k\" ^ => int, b: tstr, 1 => nil, * tstr => any }\n", "a = #6.32(tstr) / #6(int) / #1.5 / #7.25 / #\n", "a = $x / $$y\n$x /= int\n$$y //= (z: int)\n",
             "a<T, U> = [T, U]\nb = a<int, (tstr / nil)>\n", "a = b .size (1..3) / c .regexp \"x\" / (d / e) .default 1\n", "a = h'0102' / b64'AQI' / 'text'\n",
             "a = &(x: 1, y: 2) / &g\ng = (p: 1)\n", "a = ((int / tstr) / nil) / (1..2) .. 3\n", "a = [ (int, tstr) // (nil) ]\n", "a = { ( x: int // y: tstr ), ? z: nil }\n"]
    if with_comments:
        extra += ["a = int ; c\n  / tstr ; d\n", "; before\na = int\n; after\n", "a = [ ; open\n  int, ; one\n  tstr ; two\n] ; close\n", "a = { x: int, ; k\n y: \"semi;colon\" ; s\n}\n",
                  "a = ( ; p\n int ; q\n )\n", "a = int ; only comment, no newline", "a = b ; c1\n  .size ; c2\n  3\n", "a<T ; in params\n> = T\n", "a = { ? ; occ\n x ; key\n : ; colon\n int }\n",
                  "a = #6.1( ; tag\n int )\n", "a = 'q;r' / \"x;y\" ; real comment\n", "a = [ * ; star\n int ]\n", "g = ( ; g\n x: int // ; alt\n y: int )\nr = [g]\n"]
    for tx in extra:
        src = [m.group(1) for m in re.finditer(r";([^\n]*)", re.sub(r"\"[^\"]*\"|'[^']*'", lambda m: "_" * len(m.group(0)), tx))]
        # recover the real comment text from the original at the same offsets
        src = []
        masked = re.sub(r"\"[^\"]*\"|'[^']*'", lambda m: "_" * len(m.group(0)), tx)
        for m in re.finditer(r";([^\n]*)", masked):
            src.append(tx[m.start(1):m.end(1)].rstrip("\r"))
        docs.append((None, tx, src))
    ops = [{"id": i, "op": "parse", "ast": True, "comments": True, "roundtrip": True, "cddl": tx} for i, (r, tx, s) in enumerate(docs)]
    res = vlib.execute(ops)
    events, owner = [], []
    for idx, ((rules, text, src), r) in enumerate(zip(docs, res)):
        o = r["obs"]
        if "ok" not in o:
            out.violation("outcome:" + sorted(o)[0], {"property": pid, "cddl": text, "observed": o})
            continue
        if not o["ok"]:
            continue                      # not an accepted document (C03 decides)
        c1 = comments_of_debug(o["comments"])
        start = len(events)
        events.append({"ev": "Begin", "src": src})
        events.append({"ev": "Parse", "ok": True, "ast": syngen.norm(o["ast"]), "cmts": c1})
        events.append({"ev": "Format", "text": o["fmt"]})
        if o.get("ok2"):
            events.append({"ev": "Parse", "ok": True, "ast": syngen.norm(o["ast2"]), "cmts": comments_of_debug(o["comments2"])})
            events.append({"ev": "Format", "text": o["fmt2"]})
        else:
            events.append({"ev": "Parse", "ok": False, "ast": [], "cmts": []})
        events.append({"ev": "End"})
        owner += [idx] * (len(events) - start)
    # sessions must not be split across chunks: chunk on Begin boundaries
    chunks, cur = [], []
    for e in events:
        if e["ev"] == "Begin" and len(cur) > 600:
            chunks.append(cur)
            cur = []
        cur.append(e)
    if cur:
        chunks.append(cur)
    verdicts = {}
    base = 0
    import concurrent.futures

    def one(args):
        b, ch = args
        v = semcheck.judge(ch, wd + "/c%d" % b, [], module="Trace_Doc", chunk=10 ** 9, workers=1)
        return {b + k: x for k, x in v.items()}
    jobs = []
    for ch in chunks:
        jobs.append((base, ch))
        base += len(ch)
    import os
    for b, _ in jobs:
        os.makedirs(wd + "/c%d" % b, exist_ok=True)
    with concurrent.futures.ThreadPoolExecutor(max_workers=8) as ex:
        for v in ex.map(one, jobs):
            verdicts.update(v)
    n_sessions = sum(1 for e in events if e["ev"] == "Begin")
    bad_sessions = {}
    for i, v in verdicts.items():
        if v.startswith("skip:"):
            continue
        bad_sessions[owner[i]] = v
    ok_sessions = n_sessions - len(bad_sessions)
    samples = []
    stats = collections.Counter()
    # reference for the 'comment absorbs code' shape: what the printer emits for the same document without its comments
    plain = {}
    if with_comments and bad_sessions:
        idxs = sorted(bad_sessions)
        pres = vlib.execute([{"id": k, "op": "parse", "roundtrip": True, "cddl": strip_comments(docs[i][1])} for k, i in enumerate(idxs)])
        for i, r in zip(idxs, pres):
            plain[i] = r["obs"].get("fmt") or strip_comments(docs[i][1])
    for idx, v in sorted(bad_sessions.items()):
        if not verdict_filter(v):
            stats["other-property"] += 1
            continue
        rules, text, src = docs[idx]
        o = res[idx]["obs"]
        diag = diagnose_comments(o, src, v, plain.get(idx, text)) if with_comments else diagnose(o, v)
        sig = v + ":" + diag
        stats[sig] += 1
        if with_comments and diag in fsig:
            out.known_hit(fsig[diag])
        elif sig in fsig:
            out.known_hit(fsig[sig])
        else:
            out.violation(sig, {"property": pid, "verdict": v, "sig": sig, "cddl": text, "formatted": o.get("fmt"), "reparsed_ok": o.get("ok2"),
                                "formatted_again": o.get("fmt2"), "comments_attached": comments_of_debug(o["comments"]),
                                "comments_after_reparse": comments_of_debug(o.get("comments2", "")), "spec": "DocSession invariants (Trace_Doc!Verdict)"})
    for idx, ((rules, text, src), r) in enumerate(zip(docs, res)):
        if idx not in bad_sessions and r["obs"].get("ok") and len(samples) < 4 and 20 < len(text) < 140 and (not with_comments or src):
            samples.append({"source": text, "formatted": r["obs"]["fmt"], "same_ast_after_reparse": True, "idempotent": True, "comments": src})
    wall = time.time() - t0
    cov = {"states": len(events) + 1, "transitions": len(events), "traces_validated_against_impl": n_sessions, "evaluations": len(docs),
           "distinct_nontrivial": ok_sessions, "rule": rule_text, "samples": samples or [{"note": "none"}], "exhaustive": False,
           "sessions": n_sessions, "sessions_ok": ok_sessions, "finding_signatures": dict(stats), "known_finding_hits": out.known,
           "checker_cmd": "tlc Trace_Doc (DocSession actions Parse/Format + session invariants)"}
    if ok_sessions < 50:
        raise vlib.ToolError("vacuity gate: only %d sessions satisfy the invariants" % ok_sessions)
    vlib.write_evidence(pid, "model_checking", cov, wall, len(out.violations),
                        ["the abstract AST is the executor's projection of the crate's AST (names, kinds, operators, literal kinds and values, cut/unwrap/occurrence/tag markers)",
                         "comment texts are read from the derived Debug output of the AST",
                         "documents come from lib/syngen.py (accepted by construction, see C03) plus hand-written shapes"])
    return out.finish(findings)


def diagnose(o, v):
    """coarse cause of a failed session, from the two ASTs / texts (used as finding signature)"""
    a1, a2 = json.dumps(syngen.norm(o.get("ast")), sort_keys=True), json.dumps(syngen.norm(o.get("ast2")), sort_keys=True) if o.get("ok2") else ""
    f1 = o.get("fmt", "")
    if v == "bad:formatted-text-rejected":
        if re.search(r";[^\n]*\S[^\n]*$", f1) and ";" in f1:
            pass
        return "reject"
    if v == "bad:meaning-changed":
        tags = []
        if '"k": "unwrap"' in a1 and a1.count('"k": "unwrap"') != a2.count('"k": "unwrap"'):
            tags.append("unwrap-dropped")
        if a1.count('"k": "float"') != a2.count('"k": "float"'):
            tags.append("float-retyped")
        if a1.count('"k": "text"') == a2.count('"k": "text"') and re.findall(r'"cp": \[[^\]]*\]', a1) != re.findall(r'"cp": \[[^\]]*\]', a2):
            tags.append("text-changed")
        if len(a1) > len(a2) * 1.02 and ";" in f1:
            tags.append("comment-swallowed-code")
        return "+".join(tags) or "other"
    return "x"


def strip_comments(text):
    """the text with every comment (';' outside literals to the end of the line) removed"""
    out, i, n = [], 0, len(text)
    while i < n:
        c = text[i]
        if c in "\"'":
            j = i + 1
            while j < n and text[j] != c:
                j += 2 if text[j] == "\\" else 1
            out.append(text[i:j + 1])
            i = j + 1
        elif c == ";":
            j = text.find("\n", i)
            i = n if j < 0 else j
        else:
            out.append(c)
            i += 1
    return "".join(out)


def comment_tokens(text):
    """texts of the comments of a CDDL text: from ';' outside string / byte-string literals to the end of the line"""
    out, i, n = [], 0, len(text)
    while i < n:
        c = text[i]
        if c == '"':
            i += 1
            while i < n and text[i] != '"':
                i += 2 if text[i] == "\\" else 1
            i += 1
        elif c == "'":
            i += 1
            while i < n and text[i] != "'":
                i += 2 if text[i] == "\\" else 1
            i += 1
        elif c == ";":
            j = text.find("\n", i)
            j = n if j < 0 else j
            out.append(text[i + 1:j].rstrip("\r"))
            i = j
        else:
            i += 1
    return out


def diagnose_comments(o, src, v="", text=""):
    """C16 failure shapes: does some comment of the formatted text consist of a source comment followed by CODE of the
    source document (code absorbed)?  A comment whose text merely differs from every source comment is not this shape."""
    f1 = o.get("fmt") or ""
    srcs = [s.strip() for s in src]
    code = code_only(text)          # text: the printer's output for the same document WITHOUT comments

    def absorbs(c):
        if c in src or c.strip() in srcs:
            return False
        for s_ in src:
            if c.startswith(s_.rstrip()) or c.startswith(s_):
                # what follows the source comment may itself contain further (absorbed) source comments: take them out,
                # what is left must be code of the document
                rest = c[len(s_.rstrip()):]
                for s2 in sorted(set(src), key=len, reverse=True):
                    for form in (";" + s2, ";" + s2.rstrip()):
                        if len(form) > 1:
                            rest = rest.replace(form, " ")
                rem = code_only(rest, semicolon_is_blank=True)
                if rem and rem in code:
                    return True
        return False
    absorbed = [c for c in comment_tokens(f1) + comment_tokens(o.get("fmt2") or "") if absorbs(c)]
    if absorbed:
        return "comment-absorbs-code"
    c1 = sorted(comments_of_debug(o.get("comments", "")))
    c2 = sorted(comments_of_debug(o.get("comments2", ""))) if o.get("ok2") else None
    if c2 is not None and c1 != c2:
        if sorted(c.rstrip(" \t") for c in c1) == sorted(c.rstrip(" \t") for c in c2):
            return "comment-trailing-blanks-trimmed"
        if len(c2) == len(c1):
            return "comment-text-changed"
        return "attached-comment-not-emitted" if len(c2) < len(c1) else "comment-duplicated"
    if v == "bad:not-idempotent" and code_only(o.get("fmt") or "") == code_only(o.get("fmt2") or ""):
        return "layout-not-idempotent"
    return "other"


def code_only(text, semicolon_is_blank=False):
    """the text without comments, whitespace and (optional) commas"""
    out, i, n = [], 0, len(text)
    while i < n:
        c = text[i]
        if c in "\"'":
            j = i + 1
            while j < n and text[j] != c:
                j += 2 if text[j] == "\\" else 1
            out.append(text[i:j + 1])
            i = j + 1
        elif c == ";" and not semicolon_is_blank:
            j = text.find("\n", i)
            i = n if j < 0 else j
        elif c in " \t\r\n,;":
            i += 1
        else:
            out.append(c)
            i += 1
    return "".join(out)
