"""C11 - CBOR decoding implements RFC 8949 well-formedness and values.

spec -> impl : MC_Cbor enumerates every byte string up to the bound, TLC computes the RFC result,
               the real decode_cbor is run on each and compared.
impl -> spec : structured encodings (all encoding choices), their strict prefixes and byte mutants are
               decoded by the real code; Trace_Cbor validates every recorded call/return pair.
"""
import json
import os
import random
import time

import cborlib
import vlib
from vlib import hexs

PID = "C11"


def norm_obs(o):
    if "ok" not in o:
        return o            # crash / panic / hang
    if not o["ok"]:
        return {"ok": False}

    def nv(v):
        k = v["k"]
        if k == "float" and v.get("nan"):
            return {"k": "float", "bits": [127, 248, 0, 0, 0, 0, 0, 0], "nan": True}
        if k == "arr":
            return {"k": "arr", "items": [nv(x) for x in v["items"]]}
        if k == "map":
            return {"k": "map", "pairs": [{"key": nv(p["key"]), "val": nv(p["val"])} for p in v["pairs"]]}
        if k == "tag":
            return {"k": "tag", "tn": v["tn"], "c": nv(v["c"])}
        return v
    return {"ok": True, "v": nv(o["v"])}


def gen_random(rnd, n):
    """structured encodings, prefixes, single-byte mutants, hostile heads"""
    out = []
    while len(out) < n:
        v = cborlib.rand_value(rnd, depth=rnd.choice([1, 2, 3]))
        b = cborlib.encode(v, cborlib.Choices(rnd, p=rnd.choice([0.0, 0.3, 0.7])))
        if len(b) > 4000:
            continue
        out.append(b)
        r = rnd.random()
        if r < 0.35 and len(b) > 1:
            out.append(b[:rnd.randint(0, len(b) - 1)])          # strict prefix
        elif r < 0.7:
            m = bytearray(b)
            pos = rnd.randrange(len(m))
            m[pos] = rnd.choice([0x1f, 0x3f, 0x5f, 0x7f, 0x9f, 0xbf, 0xdf, 0xff, 0xf8, 0x1c, 0x5c, 0xfc, 0x00, 0x41, 0x61, 0x80, 0xc0,
                                 rnd.randint(0, 255)])
            out.append(bytes(m))
        elif r < 0.8:
            out.append(b + bytes([rnd.randint(0, 255)]))        # trailing garbage: still begins with an item
        elif r < 0.9:
            # insert an extra byte
            pos = rnd.randrange(len(b) + 1)
            out.append(b[:pos] + bytes([rnd.choice([0xff, 0x5f, 0x7f, 0x9f, 0xbf, 0x00, 0x60, 0x40])]) + b[pos:])
    # indefinite-length strings chunked at arbitrary BYTE positions (RFC 8949 3.2.3: every chunk of a text string is itself
    # a well-formed definite-length text string, so a boundary inside a multi-byte character is an error), alone and nested
    texts = ["a\u00e9", "\u00e9", "\u20acx", "x\U0001f600", "\u00e9\u00e9", "ab", "\u0430\u0431\u0432"]
    for s in texts:
        raw = s.encode("utf-8")
        for mt in (3, 2):
            cuts = [[i] for i in range(0, len(raw) + 1)] + [sorted(rnd.sample(range(len(raw) + 1), 2)) for _ in range(3)]
            for cut in cuts:
                parts, prev = [], 0
                for c in cut + [len(raw)]:
                    parts.append(raw[prev:c])
                    prev = c
                body = b"".join(cborlib.head(mt, len(x), rnd.choice([0, 0, 1])) + x for x in parts)
                enc = bytes([mt << 5 | 31]) + body + b"\xff"
                out.append(enc)
                out.append(b"\x81" + enc)
                out.append(b"\xa1" + enc + b"\x00" if mt == 3 else b"\xa1\x00" + enc)
                out.append(b"\xc1" + enc)
    # ill-formed chunk sequences of indefinite-length strings (RFC 8949 3.2.3: chunks are definite-length strings of the same major type)
    chunks_ok = {2: [b"\x41\x01", b"\x40", b"\x42\x02\x03"], 3: [b"\x61a", b"\x60", b"\x62\xc3\xa9"]}
    for mt in (2, 3):
        other = 3 if mt == 2 else 2
        ib = bytes([mt << 5 | 31])
        bad_chunks = [ib + chunks_ok[mt][0] + b"\xff",                 # nested indefinite string of the same type
                      ib + b"\xff",                                      # nested empty indefinite string
                      chunks_ok[other][0],                                # chunk of the other string type
                      bytes([other << 5 | 31]) + chunks_ok[other][0] + b"\xff",
                      b"\x01", b"\x20", b"\x80", b"\xa0", b"\xf6", b"\xc1" + chunks_ok[mt][0], b"\x9f\xff", b"\xf9\x3c\x00"]
        for bc in bad_chunks:
            for pre in (b"", chunks_ok[mt][0], chunks_ok[mt][1] + chunks_ok[mt][2]):
                for post in (b"", chunks_ok[mt][0]):
                    enc = ib + pre + bc + post + b"\xff"
                    out.append(enc)
                    out.append(b"\x81" + enc)
                    out.append(b"\xa1\x00" + enc)
        # break in the wrong place, missing break
        out.append(ib + chunks_ok[mt][0])
        out.append(ib + chunks_ok[mt][0] + b"\xff\xff")
        out.append(b"\x82" + ib + chunks_ok[mt][0] + b"\xff")
    # hostile heads: announced lengths far beyond the input
    for mt in (2, 3, 4, 5):
        for w, val in ((1, 200), (2, 60000), (4, 2**32 - 1), (8, 2**40), (8, 2**64 - 1), (4, 2**28)):
            out.append(cborlib.head(mt, val, w) + b"\x00\x01")
    return out


def run():
    t0 = time.time()
    t = vlib.tier()
    rnd = random.Random(vlib.seed() * 7919 + 11)
    wd = vlib.workdir(PID)
    findings = vlib.load_findings(PID)
    known_dev = sorted(f["dev"] for f in findings if f.get("dev"))
    dev_to_id = {f["dev"]: f["id"] for f in findings if f.get("dev")}
    out = vlib.Outcome(PID)

    # ---- E: exhaustive scope from TLC
    cfg = os.path.join(wd, "MC_Cbor.cfg")
    if t == "quick":
        consts = {"MaxLen": 2, "FullPos": 2, "Alpha": "{0}"}
    else:
        alpha = [0x00, 0x01, 0x17, 0x18, 0x19, 0x1a, 0x1b, 0x1c, 0x1f, 0x20, 0x37, 0x38, 0x3b, 0x40, 0x41, 0x42, 0x58, 0x5f, 0x60, 0x61,
                 0x62, 0x78, 0x7f, 0x80, 0x81, 0x82, 0x98, 0x9f, 0xa0, 0xa1, 0xbf, 0xc0, 0xc1, 0xd8, 0xe0, 0xf4, 0xf5, 0xf6, 0xf7,
                 0xf8, 0xf9, 0xfa, 0xfb, 0xfc, 0xff, 0xc3, 0xa9, 0x7e, 0x3c]
        consts = {"MaxLen": 3, "FullPos": 1, "Alpha": vlib.tla_set(sorted(set(alpha)))}
    consts["KnownDev"] = vlib.tla_set(known_dev)
    vlib.write_cfg(cfg, constants=consts, invariants=["Emit"])
    res = vlib.tlc("MC_Cbor", cfg, wd, workers=8, timeout=1500)
    vlib.tlc_must(res, "MC_Cbor")
    gen = [o for tag, o in res.lines if tag == "R"]
    vlib.log("TLC enumerated %d byte strings (%d states) in %.1fs" % (len(gen), res.distinct, res.wall))
    if len(gen) != res.distinct or not gen:
        raise vlib.ToolError("replay records lost: %d vs %d states" % (len(gen), res.distinct))
    cases = [{"id": i, "op": "decode_cbor", "hex": hexs(g["bytes"])} for i, g in enumerate(gen)]
    results = vlib.execute(cases)
    events = []          # events that need TLC classification
    n_ok = n_err = 0
    distinct_values = set()
    samples = []
    for g, c, r in zip(gen, cases, results):
        obs = norm_obs(r["obs"])
        if obs == g["s"]:
            if obs.get("ok"):
                n_ok += 1
                distinct_values.add(json.dumps(obs["v"], sort_keys=True))
            else:
                n_err += 1
            if len(samples) < 3 and obs.get("ok") and len(g["bytes"]) == consts["MaxLen"]:
                samples.append({"bytes": c["hex"], "expected": g["s"], "observed": obs, "source": "TLC scope"})
            continue
        if "ok" not in obs:
            out.violation("outcome:" + sorted(obs)[0], {"property": PID, "kind": "no-return", "hex": c["hex"], "observed": obs,
                                                       "expected": g["s"], "spec": "Cbor!Result (totality)"})
            continue
        events.append({"bytes": g["bytes"], "obs": obs})

    # ---- R: recorded executions of the real decoder on structured / mutated encodings
    nrand = 6000 if t == "quick" else 150000
    rb = gen_random(rnd, nrand)
    rcases = [{"id": i, "op": "decode_cbor", "hex": b.hex()} for i, b in enumerate(rb)]
    rres = vlib.execute(rcases, rlimit_as=4 << 30)
    n_rec = 0
    rec_ok = 0
    for b, c, r in zip(rb, rcases, rres):
        obs = norm_obs(r["obs"])
        if "ok" not in obs:
            out.violation("outcome:" + sorted(obs)[0] + ":mt%d" % (b[0] >> 5 if b else -1),
                          {"property": PID, "kind": "no-return", "hex": c["hex"], "observed": obs,
                           "spec": "Cbor!Result (totality: decode returns a value or an error)"})
            continue
        events.append({"bytes": list(b), "obs": obs})
        n_rec += 1
        if obs.get("ok"):
            rec_ok += 1
            distinct_values.add(json.dumps(obs["v"], sort_keys=True))
    if len(samples) < 5 and rb:
        samples.append({"bytes": rb[0].hex(), "observed": norm_obs(rres[0]["obs"]), "source": "recorded, validated by Trace_Cbor"})

    # ---- trace validation by TLC (chunks in parallel)
    verdicts = validate_events(events, wd, known_dev)
    bad = 0
    for idx, v in verdicts:
        e = events[idx]
        if v.startswith("known:"):
            d = v.split(":", 1)[1]
            out.known_hit(dev_to_id.get(d, "C11-" + d) if d != "*" else "C11-multi")
        else:
            bad += 1
            first = e["bytes"][0] if e["bytes"] else -1
            sig = "decode:%s:ib%02x" % ("accept" if e["obs"].get("ok") else "reject", first)
            out.violation(sig, {"property": PID, "hex": hexs(e["bytes"]), "observed": e["obs"], "verdict": v,
                                "spec": "Cbor!Result({}, bytes)", "how": "bin/check C11 --replay <this file>"})
    wall = time.time() - t0
    cov = {
        "states": res.distinct, "transitions": res.generated,
        "traces_validated_against_impl": len(events),
        "evaluations": len(gen) + len(rb),
        "distinct_nontrivial": len(distinct_values),
        "rule": "TLC enumerates every byte string up to the bound (each is one state); random structured encodings with "
                "encoding choices, strict prefixes, byte substitutions/insertions and hostile heads are decoded by the real code and "
                "validated by Trace_Cbor. Non-trivial/distinct = distinct decoded data-model values on which spec and implementation agreed.",
        "samples": samples,
        "exhaustive": True,
        "exhaustive_scope": consts,
        "tlc_scope_accept": n_ok, "tlc_scope_reject": n_err,
        "recorded_events": n_rec, "recorded_accept": rec_ok,
        "known_finding_hits": out.known,
        "checker_cmd": "tlc MC_Cbor (Emit) ; tlc Trace_Cbor",
    }
    vlib.write_evidence(PID, "model_checking", cov, wall, len(out.violations),
                        ["RFC 8949 rules transcribed from memory into spec/Cbor.tla (no network)",
                         "harness projection of cddl::validator::cbor_value::Value is trusted glue",
                         "binary16/32 -> binary64 widening is defined in spec/Bytes.tla; NaN payloads are not compared"])
    return out.finish(findings)


def validate_events(events, wd, known_dev, chunk=4000):
    """returns [(event index, verdict)] for every non-ok event"""
    import concurrent.futures
    if not events:
        return []
    chunks = [events[i:i + chunk] for i in range(0, len(events), chunk)]
    cfg = os.path.join(wd, "Trace_Cbor.cfg")
    vlib.write_cfg(cfg, constants={"KnownDev": vlib.tla_set(known_dev)}, postcondition="Consumed")

    def one(k):
        path = os.path.join(wd, "trace_%d.ndjson" % k)
        with open(path, "w") as f:
            for e in chunks[k]:
                f.write(json.dumps(e) + "\n")
        r = vlib.tlc("Trace_Cbor", cfg, wd, env_extra={"TRACE": path}, workers=1, timeout=900, xmx="2g")
        os.remove(path)
        if not r.ok:
            raise vlib.ToolError("Trace_Cbor failed:\n" + r.raw_tail)
        outv = []
        for tag, o in r.lines:
            if tag == "V":
                if o["v"] == "unconsumed":
                    raise vlib.ToolError("trace not consumed: " + str(o))
                outv.append((k * chunk + o["l"] - 1, o["v"]))
        return outv
    res = []
    with concurrent.futures.ThreadPoolExecutor(max_workers=8) as ex:
        for r in ex.map(one, range(len(chunks))):
            res.extend(r)
    return res


def replay(path):
    with open(path) as f:
        p = json.load(f)
    wd = vlib.workdir(PID)
    case = {"id": 0, "op": "decode_cbor", "hex": p["hex"]}
    r = vlib.execute([case])[0]
    obs = norm_obs(r["obs"])
    print("observed:", json.dumps(obs))
    if "ok" not in obs:
        print("VIOLATION property=%s replay=%s" % (PID, path))
        return 1
    v = validate_events([{"bytes": list(bytes.fromhex(p["hex"])), "obs": obs}], wd, [])
    if v:
        print("spec disagrees:", v)
        print("VIOLATION property=%s replay=%s" % (PID, path))
        return 1
    print("agrees with Cbor!Result")
    return 0
