"""C05 - no entry point panics, aborts, overflows the stack or hangs on any input.

Addressed through the specification's totality requirement (Api!Total: the outcome of every call is a return kind; panic,
crash and hang are not behaviours of the Api) and its generators: MC_Graphs enumerates every rule graph over the names a, b
(, c) built from 13 shapes around references (every alias / controller / container / generic cycle), each validated against a
fixed set of documents by both validators; nesting-depth sweeps 1..64 for every bracket kind in CDDL, JSON and CBOR; hostile
CBOR heads (announced lengths far beyond the input); tag-1 extremes; random and mutated inputs up to 64 KiB for parse, checked
parse, format, JSON/CBOR/CSV validation and CBOR decoding.  Calls run in executor child processes (8 MiB stack, 4 GiB address
space); a dead or silent child identifies the input; Trace_Api evaluates Api!Total and Api!WithinBound on every outcome."""
import collections
import json
import os
import random
import time

import cborlib as C
import cddlgen as G
import semcheck
import syngen
import vlib

PID = "C05"


def kind_of(op, obs):
    if "ok" not in obs and "kind" not in obs:
        return sorted(obs)[0]          # panic / crash / hang / tool_error
    if op["op"] in ("validate_json", "validate_cbor", "validate_csv"):
        return obs.get("kind", "other")
    if op["op"] == "decode_cbor":
        return "value" if obs["ok"] else "error"
    if op["op"] == "csv_to_json":
        return "value" if obs["ok"] else "error"
    return "accepted" if obs.get("ok") else "rejected"


def size_of(op):
    return sum(len(str(op.get(k, ""))) // (2 if k == "hex" else 1) for k in ("cddl", "json", "hex", "csv"))


def nest(open_, close, n, inner):
    return open_ * n + inner + close * n


def depth_cases():
    ops = []
    for n in (1, 2, 4, 8, 16, 32, 48, 64):
        # CDDL bracket kinds
        for o, c, inner in (("[", "]", "int"), ("{a: ", "}", "int"), ("(", ")", "int"), ("[(", ")]", "int"), ("#6.1(", ")", "int"), ("[* ", "]", "int"), ("&(a: ", ")", "1")):
            if (o == "[(" and n > 9) or n > 16:
                continue          # listed finding C05-exponential-parse-nesting (measured separately below)
            ops.append({"op": "parse", "cddl": "a = " + nest(o, c, n, inner) + "\n", "roundtrip": True})
        if n <= 16:
            ops.append({"op": "parse", "cddl": "a = " + "p<" * n + "int" + ">" * n + "\np<T> = [T]\n", "roundtrip": True})
        ops.append({"op": "parse", "cddl": "a = " + " / ".join("t%d" % i for i in range(n * 8)) + "\n", "roundtrip": True})
        ops.append({"op": "parse", "cddl": "".join("r%d = r%d\n" % (i, i + 1) for i in range(n * 4)) + "r%d = int\n" % (n * 4)})
        # documents of depth n against recursive schemas
        ops.append({"op": "validate_json", "cddl": "a = [* a] / int", "json": "[" * n + "1" + "]" * n})
        ops.append({"op": "validate_json", "cddl": "a = {? \"k\": a} / nil", "json": "{\"k\":" * n + "null" + "}" * n})
        ops.append({"op": "validate_json", "cddl": "a = any", "json": "[" * n + "]" * n})
        ops.append({"op": "validate_cbor", "cddl": "a = [* a] / int", "hex": "81" * n + "01"})
        ops.append({"op": "validate_cbor", "cddl": "a = {? 1 => a} / nil", "hex": "a101" * n + "f6"})
        ops.append({"op": "validate_cbor", "cddl": "a = #6.1(a) / int", "hex": "c1" * n + "01"})
        ops.append({"op": "validate_cbor", "cddl": "a = any", "hex": "9f" * n + "ff" * n})
        ops.append({"op": "decode_cbor", "hex": "bf01" * n + "00" + "ff" * n})
        ops.append({"op": "decode_cbor", "hex": "5f" * n})
        ops.append({"op": "decode_cbor", "hex": "d8ff" * n + "00"})
        # chain of rule references of length 4n, and mutual recursion through arrays
        ops.append({"op": "validate_json", "cddl": "".join("r%d = [r%d]\n" % (i, i + 1) for i in range(n)) + "r%d = int\n" % n, "json": "[" * n + "1" + "]" * n})
    return ops


def hostile_cases(rnd):
    ops = []
    for mt in (2, 3, 4, 5):
        for w, val in ((1, 200), (2, 60000), (4, 2**32 - 1), (4, 2**28), (8, 2**40), (8, 2**63), (8, 2**64 - 1)):
            h = (C.head(mt, val, w) + b"\x00\x01").hex()
            ops.append({"op": "decode_cbor", "hex": h})
            ops.append({"op": "validate_cbor", "cddl": "a = any", "hex": h})
            ops.append({"op": "validate_cbor", "cddl": "a = any", "hex": "81" + h})
            ops.append({"op": "validate_cbor", "cddl": "a = any", "hex": "c1" + h})
    for h in ("c11bffffffffffffffff", "c13bffffffffffffffff", "c1fb7ff0000000000000", "c1fbfff0000000000000", "c1fb7ff8000000000000", "c1fb7fefffffffffffff", "c11b7fffffffffffffff",
              "c0781e323032312d31332d34305439393a39393a39395a", "c074323032312d30312d30315430303a30303a30305a", "d82066613a2f2f5b", "d8216141", "c249" + "ff" * 9, "c340"):
        for sch in ("a = time", "a = tdate", "a = any", "a = uri / b64url / time / tdate / bigint / integer", "a = number", "a = #6.1(number)"):
            ops.append({"op": "validate_cbor", "cddl": sch, "hex": h})
    for v in ("1e308", "-1e308", "18446744073709551615", "-9223372036854775808", "1e-320", "123456789012345678901234567890", "0.1e1000"):
        for sch in ("a = time", "a = number", "a = int .lt 5", "a = uint .size 8", "a = 0..10", "a = float .ge 1.5", "a = tdate"):
            ops.append({"op": "validate_json", "cddl": sch, "json": v})
    # control operators with hostile arguments
    for sch, doc in (("a = tstr .regexp \"(a*)*b\"", "\"" + "a" * 40 + "\""), ("a = tstr .regexp \"[\"", "\"x\""), ("a = tstr .size 18446744073709551615", "\"x\""), ("a = uint .size 9999999", "1"),
                     ("a = bstr .bits b\nb = &(x: 99999999999)", "1"), ("a = tstr .abnf \"a = b\"", "\"x\""), ("a = tstr .cat 5", "\"x\""), ("a = tstr .pcre \"(?=\"", "\"x\""),
                     ("a = [1000000000000000* ()]", "[]"), ("a = [1000000000000000*2000000000000000 (? int), tstr]", "[\"x\"]"), ("a = [4294967296* (? int, ? tstr)]", "[1]"),
                     ("a = {1000000000000* (? a: int)}", "{}"),
                     ("a = [2147483648*4294967295 int]", "[1]"), ("a = [18446744073709551615* int]", "[1]"), ("a = {* tstr => a}", "{\"a\":{\"b\":{}}}"), ("a = tstr .default 1", "1"),
                     ("a = int .plus 9223372036854775807", "1"), ("a = \"a\" .det \"b\"", "\"ab\""), ("a = tstr .b64u bstr", "\"!!\""), ("a = tstr .printf ([\"%s\", \"x\"])", "\"x\"")):
        ops.append({"op": "validate_json", "cddl": sch, "json": doc})
        ops.append({"op": "parse", "cddl": sch + "\n", "roundtrip": True})
    # rule cycles that pass through generic instantiations (type and group generics, arguments that refer back)
    cyc = ["t1 = gen1<{}>\ngen1<T> = (t1 / T / t1)", "a = g<a>\ng<T> = [* T] / T", "a = g<h<a>>\ng<T> = T / nil\nh<T> = [T]", "a = [gg<a>]\ngg<T> = (T, ? T)",
           "a = g<int>\ng<T> = g<T> / T", "a = g<int>\ng<T> = h<T>\nh<T> = g<T>", "a = {* tstr => g<a>}\ng<T> = T / [* T]", "a = g<a, a>\ng<K, V> = {* K => V} / int",
           "a = ~g<a>\ng<T> = [T]", "a = &gg<a>\ngg<T> = (x: T, y: nil)"]
    for sch in cyc:
        for doc in ("1", "[]", "[[1]]", "{}", "{\"k\":{\"k\":1}}", "null", "[1,[1,[1]]]"):
            ops.append({"op": "validate_json", "cddl": sch + "\n", "json": doc})
            ops.append({"op": "validate_cbor", "cddl": sch + "\n", "hex": bytes(C.encode(_val_of_json(doc))).hex()})
        ops.append({"op": "parse", "cddl": sch + "\n", "roundtrip": True})
    return ops


def _val_of_json(text):
    import json as _j

    def conv(x):
        if x is None:
            return dict(C.NULL)
        if isinstance(x, bool):
            return C.mk_bool(x)
        if isinstance(x, int):
            return C.mk_int(x)
        if isinstance(x, float):
            return C.mk_float(x)
        if isinstance(x, str):
            return C.mk_text(x)
        if isinstance(x, list):
            return C.mk_arr([conv(i) for i in x])
        return C.mk_map([(C.mk_text(k), conv(v)) for k, v in x.items()])
    return conv(_j.loads(text))


def random_cases(rnd, n, big):
    ops = []
    alph = "ab09 =/,:;()[]{}<>#.*+?~&^-\"'$\n\\é€\t\r"
    for i in range(n):
        x = rnd.random()
        ln = rnd.choice([1, 3, 10, 40, 200] + ([4000, 65536] if big and i % 40 == 0 else []))
        if x < 0.25:
            ops.append({"op": "parse", "cddl": "".join(rnd.choice(alph) for _ in range(ln)), "roundtrip": True})
        elif x < 0.4:
            sg = syngen.SynGen(rnd, depth=rnd.choice([1, 2, 3]))
            tx = syngen.join(syngen.Renderer(rnd).document(sg.document()), rnd, comments=True)
            s = list(tx)
            for _ in range(rnd.randint(1, 3)):
                if s:
                    p = rnd.randrange(len(s))
                    s[p] = rnd.choice(alph)
            ops.append({"op": "parse", "cddl": "".join(s), "roundtrip": True, "ast": True, "spans": True})
            ops.append({"op": "parents", "cddl": "".join(s)})
        elif x < 0.55:
            ops.append({"op": "decode_cbor", "hex": bytes(rnd.randrange(256) for _ in range(ln)).hex()})
        elif x < 0.7:
            g = G.Gen(rnd, fmt="cbor", profile="shared")
            ops.append({"op": "validate_cbor", "cddl": G.render(g.schema()), "hex": bytes(rnd.randrange(256) for _ in range(min(ln, 300))).hex()})
        elif x < 0.85:
            g = G.Gen(rnd, fmt="json", profile="shared")
            v = C.rand_value(rnd, depth=3, full=False)
            ops.append({"op": "validate_json", "cddl": G.render(g.schema()), "json": C.to_json_text(v) if rnd.random() < 0.8 else "".join(rnd.choice("[]{}\",:0123e-.tn ") for _ in range(min(ln, 200)))})
        else:
            txt = "".join(rnd.choice("a1,\"\n\r.e-+ é") for _ in range(min(ln, 2000)))
            ops.append({"op": "validate_csv", "cddl": "a = [* [* (tstr / number)]]", "csv": txt, "header": rnd.random() < 0.5})
            ops.append({"op": "csv_to_json", "csv": txt, "header": rnd.random() < 0.5})
    if big:
        ops.append({"op": "parse", "cddl": "".join("rule%d = { a: int, b: [* tstr], ? c: rule%d }\n" % (i, i + 1) for i in range(900)) + "rule900 = nil\n", "roundtrip": True})
        ops.append({"op": "validate_json", "cddl": "a = [* int]", "json": "[" + ",".join(["1"] * 30000) + "]"})
        ops.append({"op": "validate_json", "cddl": "a = {* tstr => int}", "json": "{" + ",".join('"k%d":1' % i for i in range(4000)) + "}"})
        ops.append({"op": "validate_cbor", "cddl": "a = [* int]", "hex": "9f" + "01" * 60000 + "ff"})
        ops.append({"op": "validate_cbor", "cddl": "a = {* int => int}", "hex": "bf" + "".join("19%04x01" % i for i in range(3000)) + "ff"})
        ops.append({"op": "decode_cbor", "hex": "9f" + "01" * 65000 + "ff"})
    return ops


def run():
    t0 = time.time()
    t = vlib.tier()
    rnd = random.Random(vlib.seed() * 509 + 5)
    wd = vlib.workdir(PID)
    findings = vlib.load_findings(PID)
    out = vlib.Outcome(PID)
    # ---- rule graphs from TLC
    cfg = os.path.join(wd, "MC_Graphs.cfg")
    vlib.write_cfg(cfg, constants={"Names": '{"a", "b"}' if t == "quick" else '{"a", "b", "c"}'}, invariants=["Emit"])
    res = vlib.tlc("MC_Graphs", cfg, wd, workers=8, timeout=2400, xmx="6g")
    vlib.tlc_must(res, "MC_Graphs")
    graphs = [o["rules"] for tag, o in res.lines if tag == "R"]
    fam = [g for g in graphs if any(r["name"] == "h" for r in g)]       # GenericFamily: always replayed completely
    if not fam:
        raise vlib.ToolError("MC_Graphs: the generic self-reference family is missing")
    if t == "thorough" and len(graphs) > 4000:
        graphs = fam + rnd.sample([g for g in graphs if g not in fam], 4000)
    docs_j = ["1", "[]", "[1]", "[[1],[]]", "{}", "{\"k\":1}", "\"abc\"", "[1,[2,[3]]]"]
    docs_c = ["01", "80", "8101", "a0", "a1616b01", "63616263", "828101820203"]
    ops = []
    for r in graphs:
        text = G.render(r)
        for d in (docs_j if t != "quick" else docs_j[:5]):
            ops.append({"op": "validate_json", "cddl": text, "json": d})
        for d in (docs_c if t != "quick" else docs_c[:4]):
            ops.append({"op": "validate_cbor", "cddl": text, "hex": d})
    n_graph_ops = len(ops)
    ops += depth_cases()
    ops += hostile_cases(rnd)
    ops += random_cases(rnd, 1500 if t == "quick" else 15000, True)
    for i, o in enumerate(ops):
        o["id"] = i
    results = vlib.execute(ops, per_case_timeout=12, rlimit_as=4 << 30)
    events, kinds = [], collections.Counter()
    for o, r in zip(ops, results):
        k = kind_of(o, r["obs"])
        kinds[k] += 1
        events.append({"ev": "Outcome", "kind": k, "n": min(size_of(o), 70000), "us": min(int(r.get("us", 0)), 2000000000)})
    verdicts = semcheck.judge([{"ev": "Begin", "n": 0}] + events, wd, [], module="Trace_Api", chunk=10 ** 9, workers=1, timeout=3000)
    fids = {f["id"] for f in findings}
    # crashes of the validators are attributed to the listed finding only when the schema has the shape that triggers it
    crash_ops = [ops[i - 1] for i, v in verdicts.items() if v.startswith("bad:no-return:crash") and ops[i - 1]["op"] in ("validate_json", "validate_cbor")]
    shape = control_target_in_alias_cycle(sorted(set(o["cddl"] for o in crash_ops)))
    for i, v in verdicts.items():
        o, r = ops[i - 1], results[i - 1]
        msg = str(r["obs"].get("panic") or r["obs"].get("crash") or r["obs"].get("hang") or "")
        sig = "%s:%s:%s" % (v, o["op"], msg[:60])
        if v.startswith("bad:no-return:crash") and shape.get(o.get("cddl")) and "C05-control-target-alias-cycle" in fids:
            out.known_hit("C05-control-target-alias-cycle")
            continue
        out.violation(sig, {"property": PID, "verdict": v, "call": {k: (x if len(str(x)) < 3000 else str(x)[:3000] + "...") for k, x in o.items()}, "observed": r["obs"],
                            "microseconds": r.get("us"), "input_bytes": size_of(o), "spec": "Api!Total / Api!WithinBound"})
    # listed finding: parse time of '[([( ... )])]' doubles-plus with every level; identified by measuring depths 8..11
    if "C05-exponential-parse-nesting" in fids:
        tm = {}
        for n in (14, 16, 18, 19):
            rr = vlib.execute([{"id": 0, "op": "parse", "cddl": "a = " + nest("[", "]", n, "int") + "\n"}], per_case_timeout=60)[0]
            tm[n] = rr.get("us", 10 ** 9) if "ok" in rr["obs"] else 10 ** 9
        if tm[19] > 8 * max(tm[14], 1000):
            out.known_hit("C05-exponential-parse-nesting")
    wall = time.time() - t0
    slow = sorted(((r.get("us", 0), size_of(o), o["op"]) for o, r in zip(ops, results)), reverse=True)[:3]
    cov = {"states": res.distinct, "transitions": res.generated, "traces_validated_against_impl": len(events), "evaluations": len(ops), "distinct_nontrivial": len(ops) - len(verdicts),
           "rule": "calls whose outcome is a return: %d validator calls on the rule graphs of MC_Graphs (TLC states: all assignments of 13 shapes around references to the rules a, b(, c) plus the generic self-reference family (9 self forms x 3 base cases x 2 orders x 4 roots) and a "
                   "self-applying generic), nesting-depth sweeps 1..64 for 8 CDDL bracket kinds / JSON / CBOR (definite, indefinite, tags), hostile CBOR heads, tag-1 and numeric extremes, "
                   "hostile control arguments, random and mutated inputs up to 64 KiB for every entry point. Non-trivial/distinct = calls that returned within the bound." % n_graph_ops,
           "samples": [{"call": ops[n_graph_ops + 3], "outcome": kind_of(ops[n_graph_ops + 3], results[n_graph_ops + 3]["obs"])}], "exhaustive": False,
           "outcome_kinds": dict(kinds), "slowest_us_bytes_op": slow, "rule_graph_calls": n_graph_ops, "known_finding_hits": out.known, "checker_cmd": "tlc MC_Graphs ; tlc Trace_Api (Outcome events)"}
    vlib.write_evidence(PID, "exploration", cov, wall, len(out.violations),
                        ["the specification contributes the totality requirement, the time bound and the rule-graph generator, not a memory model",
                         "a call that kills or silences the executor child (abort, stack overflow, 30 s without output) is attributed to the input being processed",
                         "child processes: 8 MiB thread stack, RLIMIT_AS 4 GiB"])
    return out.finish(findings)


def replay(path):
    p = json.load(open(path))
    o = dict(p["call"], id=0)
    r = vlib.execute([o], per_case_timeout=30, rlimit_as=4 << 30)[0]
    k = kind_of(o, r["obs"])
    print(json.dumps(o)[:500], "->", k, r.get("us"), "us")
    if k in ("panic", "crash", "hang", "tool_error"):
        print("VIOLATION property=%s replay=%s" % (PID, path))
        return 1
    return 0


def control_target_in_alias_cycle(texts):
    """for each schema text: does some control operator / range have a target name from which a cycle of the
    'leading type name' alias graph is reachable? (the shape of finding C05-control-target-alias-cycle)"""
    out = {}
    if not texts:
        return out
    res = vlib.execute([{"id": i, "op": "parse", "ast": True, "cddl": tx} for i, tx in enumerate(texts)])
    for tx, r in zip(texts, res):
        ast = r["obs"].get("ast")
        if not ast:
            out[tx] = False
            continue
        lead = {}
        targets = []

        def leading(t1):
            k = t1["k"]
            if k == "ref":
                return t1["n"]
            if k == "ctl":
                return leading(t1["t"])
            if k == "range":
                return leading(t1["lo"])
            return None

        def walk(o):
            if isinstance(o, dict):
                if o.get("k") == "unwrap":
                    targets.append(o["n"])
                if o.get("k") in ("ctl", "range"):
                    tgt = o["t"] if o["k"] == "ctl" else o["lo"]
                    if tgt.get("k") == "ref":
                        targets.append(tgt["n"])
                    arg = o["arg"] if o["k"] == "ctl" else o["hi"]
                    if arg.get("k") == "ref":
                        targets.append(arg["n"])
                for v in o.values():
                    walk(v)
            elif isinstance(o, list):
                for v in o:
                    walk(v)
        for rule in ast:
            if rule["kind"] == "type":
                lead.setdefault(rule["name"], set())
                for alt in rule["t"]["alts"]:
                    n = leading(alt)
                    if n:
                        lead[rule["name"]].add(n)
        walk(ast)

        def reaches_cycle(start):
            seen, stack = set(), [(start, (start,))]
            while stack:
                n, path = stack.pop()
                for m in lead.get(n, ()):
                    if m in path:
                        return True
                    if (m, ) and m not in seen:
                        seen.add(m)
                        stack.append((m, path + (m,)))
            return False
        out[tx] = any(reaches_cycle(tg) for tg in targets)
    return out
