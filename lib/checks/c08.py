"""C08 - naming, generics, sockets and parentheses are semantically transparent.

spec/Refactor.tla is a schema-session state machine: the state is the schema, the actions are the refactorings of the property
(paren, extract, unfold/instantiate, split into '/=' '//=' increments, socket, rename, reorder, remove - each usable in both
directions), the property is the action invariant 'no document changes its verdict'.
  design   : MC_Refactor - TLC explores every sequence of <= MaxDepth enabled steps from the base schemas and checks the
             invariant against the specification's own semantics (CddlSem) under every reading;
  spec->impl: every reachable state is a session that is replayed into both real validators;
  impl->spec: random schemas (core + shared fragments) are refactored by random step chains proposed by lib/refactor.py, every
             schema of the chain is run on the same documents by the real validators, and Trace_Refactor drives
             Refactor!Step over the recorded session: a proposal the machine does not allow is 'unrelated' (driver bug), an
             allowed step across which a verdict changes is a violation."""
import collections
import concurrent.futures
import json
import os
import random
import time

import cborlib as C
import cddlgen as G
import refactor as R
import semcheck
import vlib

PID = "C08"


# ------------------------------------------------------------------ listed findings: identified per case by the site of the step
def _contains(node, kinds):
    if isinstance(node, dict):
        if node.get("k") in kinds and "kk" not in node:
            return True
        return any(_contains(v, kinds) for k, v in node.items() if k not in ("v", "cp"))
    if isinstance(node, list):
        return any(_contains(v, kinds) for v in node)
    return False


def _closure(S, names):
    """names plus every rule name referenced (transitively) from the bodies of rules with these names"""
    names = set(names)
    while True:
        more = set(names)
        for r in S:
            if r["name"] in names:
                more |= R.rule_refs(r)
        if more == names:
            return names
        names = more


def _unwrap_targets(S):
    out = set()

    def walk(o):
        if isinstance(o, dict):
            if o.get("k") == "unwrap" and "n" in o:
                out.add(o["n"])
            for k, v in o.items():
                if k not in ("v", "cp"):
                    walk(v)
        elif isinstance(o, list):
            for v in o:
                walk(v)
    walk(S)
    return _closure(S, out)


def _unwrap_indirect(S):
    """does some '~name' of S reach its array / map / tag through anything but plain rule aliases (parentheses, a socket,
    a generic instantiation, a choice)?  Plain alias chains ('u1 = u2', 'u2 = [...]') are handled by the validators."""
    names = set()

    def walk(o):
        if isinstance(o, dict):
            if o.get("k") == "unwrap" and "n" in o:
                names.add((o["n"], bool(o.get("args"))))
            for k, v in o.items():
                if k not in ("v", "cp"):
                    walk(v)
        elif isinstance(o, list):
            for v in o:
                walk(v)
    walk(S)
    for n, has_args in names:
        if has_args:
            return True
        cur, seen = n, set()
        while True:
            if cur in seen:
                return True
            seen.add(cur)
            rs = R.rules_named(S, cur)
            if not rs:
                break                      # prelude name (tagged prelude types) or undefined: not this shape
            if len(rs) != 1 or rs[0]["kind"] != "type" or rs[0]["params"] or len(rs[0]["t"]["alts"]) != 1:
                return True
            t = rs[0]["t"]["alts"][0]
            if t["k"] in ("arr", "map", "tag"):
                break
            if t["k"] == "ref" and not t["args"] and not t["n"].startswith("$"):
                cur = t["n"]
                continue
            return True
    return False


def _operand_rules(S):
    out = set()

    def walk(o):
        if isinstance(o, dict):
            if o.get("k") == "range" and "lo" in o:
                out.update(R.refs_node(o["lo"]) | R.refs_node(o["hi"]))
            if o.get("k") == "ctl" and "arg" in o:
                out.update(R.refs_node(o["t"]) | R.refs_node(o["arg"]))
            for k, v in o.items():
                if k not in ("v", "cp"):
                    walk(v)
        elif isinstance(o, list):
            for v in o:
                walk(v)
    walk(S)
    return _closure(S, out)


def _operand_indirection(S):
    """is some range / control operand of S reached through a generic instantiation or a socket?"""
    names = _operand_rules(S)
    if any(n.startswith("$") for n in names):
        return True
    if any(r["params"] for r in S if r["name"] in names):
        return True
    found = [False]

    def has_args(o):
        if isinstance(o, dict):
            if o.get("args"):
                return True
            return any(has_args(v) for k, v in o.items() if k not in ("v", "cp"))
        if isinstance(o, list):
            return any(has_args(v) for v in o)
        return False

    def walk(o):
        if isinstance(o, dict):
            if o.get("k") == "range" and "lo" in o and (has_args(o["lo"]) or has_args(o["hi"])):
                found[0] = True
            if o.get("k") == "ctl" and "arg" in o and (has_args(o["t"]) or has_args(o["arg"])):
                found[0] = True
            for k, v in o.items():
                if k not in ("v", "cp"):
                    walk(v)
        elif isinstance(o, list):
            for v in o:
                walk(v)
    walk(S)
    return found[0]


def _key_rules(S):
    """names of rules referenced (transitively) from a member-key type"""
    out = set()

    def walk(o):
        if isinstance(o, dict):
            if o.get("kk") == "type":
                out.update(R.refs_node(o["t"]))
            for k, v in o.items():
                if k not in ("v", "cp"):
                    walk(v)
        elif isinstance(o, list):
            for v in o:
                walk(v)
    walk(S)
    return _closure(S, out)


def _forwards_param(S, n):
    """does a rule named n pass one of its generic parameters on as a generic argument?"""
    for r in R.rules_named(S, n):
        ps = set(r["params"])
        found = [False]

        def walk(o):
            if isinstance(o, dict):
                if o.get("args") and R.refs_node(o["args"]) & ps:
                    found[0] = True
                for k, v in o.items():
                    if k not in ("v", "cp"):
                        walk(v)
            elif isinstance(o, list):
                for v in o:
                    walk(v)
        walk(R.body(r))
        if ps and found[0]:
            return True
    return False


def _param_in_operand(S, n):
    """does a rule named n use one of its generic parameters inside a range bound / control operand?"""
    for r in R.rules_named(S, n):
        ps = set(r["params"])
        if ps and _operand_rules([dict(r, params=[])]) & ps:
            return True
    return False


def classify(fmt, st, before, after):
    """id of the listed finding whose site this failing step is, or None"""
    a = st["a"]
    src, dst = (after, before) if a.get("rev") else (before, after)      # Forward(kind, a, src, dst)
    path = a.get("path") or []
    site_names = set()
    node = None
    if path:
        site_names.add(src[path[0] - 1]["name"])
        node = R.get(src, path)
    if a.get("idx"):
        i = a["idx"]
        if 1 <= i <= len(src):
            site_names.add(src[i - 1]["name"])
            node = node or R.body(src[i - 1])
    if a.get("name"):
        site_names.add(a["name"])
    both = [before, after]
    # unwrap: the node contains '~', or the step changes a rule that a '~' resolves through
    if (node is not None and _contains(node, {"unwrap"})) or (any(site_names & _unwrap_targets(S) for S in both) and any(_unwrap_indirect(S) for S in both)) \
            or (st["kind"] == "unfold" and node is not None and any(_contains([R.body(r) for r in R.rules_named(S, node.get("n"))], {"unwrap"}) for S in both)):
        return "C08-unwrap-indirection"
    # operands of range / control operators reached through generics or sockets (parentheses and plain aliases are repaired)
    in_operand = False
    x = src
    for j, stp in enumerate(path):
        parent = x
        x = x[stp - 1] if isinstance(stp, int) else x[stp]
        if stp in ("lo", "hi", "arg") or (stp == "t" and isinstance(parent, dict) and parent.get("k") == "ctl"):
            in_operand = True
    if ((in_operand or any(site_names & _operand_rules(S) for S in both)) and any(_operand_indirection(S) for S in both)) \
            or (st["kind"] == "unfold" and node is not None and node.get("args") and any(_param_in_operand(S, node["n"]) for S in both)):
        return "C08-operand-through-generic-or-socket"
    if "key" in path or any(site_names & _key_rules(S) for S in both):
        return "C08-member-key-indirection"
    if st["kind"] == "unfold" and node is not None and node.get("args") and any(
            _forwards_param(S, nm) for S in both for nm in ({node["n"]} | site_names)):
        return "C08-generic-parameter-forwarding"
    if st["kind"] in ("split", "socket") and a.get("idx") and src[a["idx"] - 1]["kind"] == "group" and src[a["idx"] - 1]["params"]:
        return "C08-generic-group-increment"
    if st["kind"] == "unfold" and node is not None and node.get("args") and any(
            len(R.rules_named(S, node["n"])) > 1 and R.rules_named(S, node["n"])[0]["kind"] == "group" for S in both):
        return "C08-generic-group-increment"
    if st["kind"] in ("extract", "unfold"):
        alias_names = set(site_names)
        if st["kind"] == "unfold" and node is not None and node.get("n"):
            alias_names.add(node["n"])          # the rule whose reference is unfolded
        for S in both:
            for r in S:
                if r["name"] in alias_names and r["kind"] == "group":
                    e = r["e"]
                    inner = e["g"]["galts"] if e["k"] == "sub" else [[e]]
                    if len(inner) == 1 and len(inner[0]) == 1 and inner[0][0]["k"] == "name":
                        return "C08-group-alias-in-map"
    return None


def verdict(obs):
    k = obs.get("kind")
    return {"ok": "T", "validation": "F", "cddl": "C"}.get(k, "X")


def mc_sessions(wd, fmt, depth):
    cfg = os.path.join(wd, "MC_Refactor_%s.cfg" % fmt)
    vlib.write_cfg(cfg, constants={"Fmt": '"%s"' % fmt, "MaxDepth": depth}, invariants=["Transparent", "Emit"])
    res = vlib.tlc("MC_Refactor", cfg, wd, workers=8, timeout=7200, xmx="8g")
    if not res.ok:
        raise vlib.ToolError("MC_Refactor (%s): the refactoring machine is not transparent for the specification's own semantics, or TLC failed:\n%s"
                             % (fmt, res.raw_tail))
    docs = [o for tag, o in res.lines if tag == "D"]
    recs = [o for tag, o in res.lines if tag == "R"]
    if not docs or len(recs) != res.distinct:
        raise vlib.ToolError("MC_Refactor: replay records lost (%d vs %d)" % (len(recs), res.distinct))
    sessions = []
    for r in recs:
        if not r["hist"]:
            continue
        steps = [{"kind": h["kind"], "a": h["a"], "rules2": h["s"]} for h in r["hist"]]
        sessions.append({"fmt": fmt, "rules": r["s0"], "vals": docs[0], "steps": steps, "src": "MC_Refactor", "xs": r["xs"]})
    return sessions, res


def random_sessions(rnd, fmt, n, chain):
    out = []
    kinds = collections.Counter()
    tries = 0
    while len(out) < n and tries < n * 20:
        tries += 1
        profile = rnd.choice(["core", "shared", "shared"])
        g = G.Gen(rnd, fmt=fmt, max_rules=rnd.choice([2, 3, 4]), depth=rnd.choice([1, 2, 3]), profile=profile)
        S = g.schema()
        if not R.wf(S, R.socks_of(S)):
            continue
        vals, seen = [], set()
        for _ in range(8):
            v = G.Inst(rnd, S, fmt).of_type(S[0]["t"])
            x = rnd.random()
            if x > 0.5:
                v = G.mutate(rnd, v, fmt)
            if fmt == "json" and not C.is_json_model(v):
                continue
            s = json.dumps(v, sort_keys=True)
            if s not in seen:
                seen.add(s)
                vals.append(v)
        if not vals:
            continue
        steps = []
        cur = S
        for _ in range(chain * 4):
            if len(steps) >= chain:
                break
            pr = R.propose(rnd, cur, fmt)
            if pr is None:
                continue
            kind, a, S2 = pr
            if kind == "plan-fold":
                seq = R.plan_fold_steps(cur, a)
                if not seq:
                    continue
            else:
                if S2 is None or S2 == cur:
                    continue
                seq = [(kind, a, S2)]
            okc = True
            for (k2, a2, s2) in seq:
                if not R.wf(s2, a2["socks"]) or not G.in_fragment(s2):
                    okc = False
            if not okc:
                continue
            for (k2, a2, s2) in seq:
                steps.append({"kind": k2, "a": a2, "rules2": s2})
                kinds[k2 + ("-rev" if a2["rev"] else "")] += 1
            cur = seq[-1][2]
        if steps:
            out.append({"fmt": fmt, "rules": S, "vals": vals, "steps": steps, "src": "random"})
    return out, kinds


def run_sessions(sessions):
    """run every (schema of the chain) x (document) through the real validator; fills s['oks'] and step['oks']"""
    cache, ops = {}, []
    def need(fmt, rules, v):
        text = G.render(rules)
        doc = C.to_json_text(v) if fmt == "json" else bytes(C.encode(v)).hex()
        key = (fmt, text, doc)
        if key not in cache:
            cache[key] = len(ops)
            if fmt == "json":
                ops.append({"id": len(ops), "op": "validate_json", "cddl": text, "json": doc})
            else:
                ops.append({"id": len(ops), "op": "validate_cbor", "cddl": text, "hex": doc})
        return cache[key]
    idx = []
    for s in sessions:
        row = [[need(s["fmt"], s["rules"], v) for v in s["vals"]]]
        for st in s["steps"]:
            row.append([need(s["fmt"], st["rules2"], v) for v in s["vals"]])
        idx.append(row)
    res = vlib.execute(ops, per_case_timeout=30)
    for s, row in zip(sessions, idx):
        s["oks"] = [verdict(res[i]["obs"]) for i in row[0]]
        s["obs0"] = [res[i]["obs"] for i in row[0]]
        for st, r in zip(s["steps"], row[1:]):
            st["oks"] = [verdict(res[i]["obs"]) for i in r]
    return len(ops)


def judge_sessions(sessions, wd, known_dev, per_chunk=250):
    """returns {(session index, step index): verdict} for non-ok steps"""
    chunks = [list(range(i, min(i + per_chunk, len(sessions)))) for i in range(0, len(sessions), per_chunk)]
    cfg = os.path.join(wd, "Trace_Refactor.cfg")
    vlib.write_cfg(cfg, constants={"KnownDev": vlib.tla_set(known_dev)}, postcondition="Consumed")

    def one(k):
        path = os.path.join(wd, "Trace_Refactor_%d.ndjson" % k)
        where = []
        with open(path, "w") as f:
            for si in chunks[k]:
                s = sessions[si]
                f.write(json.dumps(semcheck.no_nulls({"ev": "Begin", "fmt": s["fmt"], "rules": s["rules"], "vals": s["vals"], "oks": s["oks"]})) + "\n")
                where.append(None)
                for ti, st in enumerate(s["steps"]):
                    f.write(json.dumps(semcheck.no_nulls({"ev": "Step", "kind": st["kind"], "a": st["a"], "rules2": st["rules2"], "oks": st["oks"]})) + "\n")
                    where.append((si, ti))
        r = vlib.tlc("Trace_Refactor", cfg, wd, env_extra={"TRACE": path}, workers=1, timeout=3600, xmx="3g")
        if not r.ok:
            raise vlib.ToolError("Trace_Refactor failed on %s:\n%s" % (path, r.raw_tail))
        os.remove(path)
        out = {}
        for tag, o in r.lines:
            if tag == "V":
                if o["v"] == "unconsumed":
                    raise vlib.ToolError("trace not consumed: %s" % o)
                out[where[o["l"] - 1]] = o["v"]
        return out
    res = {}
    with concurrent.futures.ThreadPoolExecutor(max_workers=8) as ex:
        for r in ex.map(one, range(len(chunks))):
            res.update(r)
    return res


def run():
    t0 = time.time()
    t = vlib.tier()
    rnd = random.Random(vlib.seed() * 7001 + 8)
    wd = vlib.workdir(PID)
    findings = vlib.load_findings(PID)
    known_dev = sorted(set(f["dev"] for f in findings if f.get("dev")))
    dev_to_id = {f["dev"]: f["id"] for f in findings if f.get("dev")}
    out = vlib.Outcome(PID)
    finding_ids = {f["id"] for f in findings}
    depth = 1 if t == "quick" else 2
    with concurrent.futures.ThreadPoolExecutor(max_workers=2) as ex:
        futs = [ex.submit(mc_sessions, wd, fmt, depth) for fmt in ("cbor", "json")]
        mc = [f.result() for f in futs]
    sessions = []
    states = transitions = 0
    for ss, res in mc:
        sessions += ss
        states += res.distinct
        transitions += res.generated
    vlib.log("MC_Refactor: %d states, invariant Transparent holds for CddlSem; %d sessions to replay" % (states, len(sessions)))
    n_mc = len(sessions)
    n_rand = 700 if t == "quick" else 12000
    kinds = collections.Counter()
    for fmt in ("json", "cbor"):
        rs, kc = random_sessions(rnd, fmt, n_rand, chain=rnd.choice([3, 4]) if t == "quick" else 5)
        sessions += rs
        kinds.update(kc)
    nops = run_sessions(sessions)
    # sessions whose base schema the parser rejects say nothing about transparency (C03/C12 territory); they are counted
    live = [s for s in sessions if "C" not in s["oks"] and "X" not in s["oks"]]
    skipped = len(sessions) - len(live)
    for s in sessions:
        if s["src"] == "MC_Refactor" and ("C" in s["oks"] or "X" in s["oks"]):
            out.violation("base-schema-rejected", {"property": PID, "kind": "base", "fmt": s["fmt"], "cddl": G.render(s["rules"]), "observed": s["obs0"][0]})
    verdicts = judge_sessions(live, wd, known_dev)
    stats = collections.Counter()
    per_kind = collections.Counter()
    samples = []
    for si, s in enumerate(live):
        prev_rules, prev_oks = s["rules"], s["oks"]
        for ti, st in enumerate(s["steps"]):
            v = verdicts.get((si, ti), "ok")
            kd = st["kind"] + ("-rev" if st["a"].get("rev") else "")
            stats[v.split(":")[0]] += 1
            if v == "ok":
                per_kind[kd] += 1
                if "T" in st["oks"] and "F" in st["oks"]:
                    stats["ok_mixed"] += 1
                if len(samples) < 8 and "T" in st["oks"] and s["src"] == "random" and rnd.random() < 0.02:
                    samples.append({"kind": kd, "fmt": s["fmt"], "before": G.render(prev_rules), "after": G.render(st["rules2"]), "verdicts": "".join(st["oks"])})
            elif v == "unrelated":
                raise vlib.ToolError("driver proposed a step the specification does not allow: %s %s\n%s\n->\n%s" % (
                    st["kind"], json.dumps(st["a"]), G.render(prev_rules), G.render(st["rules2"])))
            elif v == "either":
                pass
            elif v.startswith("known:"):
                d = v.split(":", 1)[1]
                out.known_hit(dev_to_id.get(d, PID + "-" + d))
            elif classify(s["fmt"], st, prev_rules, st["rules2"]) in finding_ids:
                out.known_hit(classify(s["fmt"], st, prev_rules, st["rules2"]))
            else:
                j = int(v.split(":")[1]) - 1 if ":" in v and v.split(":")[1].isdigit() else 0
                doc = s["vals"][j]
                sig = "%s:%s>%s:%s" % (kd, prev_oks[j], st["oks"][j], ",".join(sorted(semcheck.tags_of_rules(st["rules2"]) ^ semcheck.tags_of_rules(prev_rules)))[:160])
                out.violation(sig, {"property": PID, "kind": "step", "fmt": s["fmt"], "step": st["kind"], "a": st["a"], "rules": prev_rules, "rules2": st["rules2"],
                                    "val": doc, "cddl": G.render(prev_rules), "cddl2": G.render(st["rules2"]),
                                    "doc": C.to_json_text(doc) if s["fmt"] == "json" else bytes(C.encode(doc)).hex(),
                                    "verdict_before": prev_oks[j], "verdict_after": st["oks"][j], "source": s["src"], "spec": "Refactor!Step / Trace_Refactor!JudgeStep"})
            prev_rules, prev_oks = st["rules2"], st["oks"]
    vlib.rerun_witnesses(out, findings)
    wall = time.time() - t0
    if stats["ok"] < 200 or stats["ok_mixed"] < 50 or len([k for k in per_kind if per_kind[k] > 0]) < 10:
        raise vlib.ToolError("vacuity gate: %s %s" % (dict(stats), dict(per_kind)))
    cov = {"states": states, "transitions": transitions, "traces_validated_against_impl": len(live), "evaluations": nops,
           "distinct_nontrivial": stats["ok_mixed"],
           "rule": "MC_Refactor: all sequences of <= %d enabled refactorings from 13 base schemas, invariant Transparent (22 documents x every reading) checked by TLC on the "
                   "specification's semantics, every reachable state replayed as a session into both validators; plus random sessions (random schema of the core/shared "
                   "fragments, <= 8 documents (instances and mutants), chains of refactorings in both directions). Trace_Refactor accepts a step only if Refactor!Step "
                   "allows it and requires unchanged verdicts. Non-trivial/distinct = steps across which some document is accepted and some rejected, all unchanged." % depth,
           "samples": samples or [{"note": "none sampled"}], "sessions_from_tlc": n_mc, "sessions_random": len(sessions) - n_mc,
           "sessions_skipped_base_schema_rejected": skipped, "steps_ok_by_kind": dict(per_kind), "steps_either": stats["either"], "steps_known": stats["known"],
           "random_step_kinds_proposed": dict(kinds), "exhaustive": True, "exhaustive_scope": {"MaxDepth": depth, "base_schemas": 13, "documents": 22},
           "known_finding_hits": out.known, "checker_cmd": "tlc MC_Refactor (Transparent, Emit) ; tlc Trace_Refactor"}
    vlib.write_evidence(PID, "model_checking", cov, wall, len(out.violations),
                        ["the renderer (abstract schema -> CDDL text) is trusted glue shared with C01/C02",
                         "random step proposals come from lib/refactor.py but are only counted when Refactor!Step re-derives them",
                         "reordering keeps the relative order of rules with the same name (the property's reordering is read conservatively)"])
    return out.finish(findings)


def replay(path):
    with open(path) as f:
        p = json.load(f)
    if p.get("kind") != "step":
        print(json.dumps(p)[:400])
        return 1
    fmt = p["fmt"]
    ops, res = semcheck.run_cases([{"fmt": fmt, "rules": p["rules"], "val": p["val"]}, {"fmt": fmt, "rules": p["rules2"], "val": p["val"]}])
    a, b = verdict(res[0]["obs"]), verdict(res[1]["obs"])
    print(ops[0]["cddl"].strip(), "|", ops[0].get("json") or ops[0].get("hex"), "->", a)
    print(ops[1]["cddl"].strip(), "|", ops[1].get("json") or ops[1].get("hex"), "->", b)
    if a != b:
        print("VIOLATION property=%s replay=%s" % (PID, path))
        return 1
    return 0
