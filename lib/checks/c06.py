from checks import doc_common
PID = "C06"
def run():
    return doc_common.run_sessions(PID, False, lambda v: v in ("bad:formatted-text-rejected", "bad:meaning-changed", "bad:not-idempotent"), 500, 12000,
        "sessions D -> A1 -> T1 -> A2 -> T2 on documents generated from the abstract syntax (every Type2 form, member-key form, occurrence, operator, generics, sockets, literal "
        "spellings, random layout; no comments) plus hand-written shapes; Trace_Doc drives DocSession!Parse / Format per recorded event and evaluates MeaningPreserved (A2 = A1 on the "
        "abstract AST incl. literal kind/value, cut/unwrap/occurrence/tag markers), Idempotent (T2 = T1) and that T1 is accepted. Non-trivial/distinct = sessions satisfying all invariants.")
def replay(path):
    import json, vlib
    p = json.load(open(path))
    r = vlib.execute([{"id": 0, "op": "parse", "ast": True, "roundtrip": True, "cddl": p["cddl"]}])[0]["obs"]
    print(p["cddl"]); print("formatted:", r.get("fmt")); print("reparse ok:", r.get("ok2"), "same ast:", r.get("ast") == r.get("ast2"), "idempotent:", r.get("fmt") == r.get("fmt2"))
    bad = not r.get("ok2") or r.get("ast") != r.get("ast2") or r.get("fmt") != r.get("fmt2")
    if bad:
        print("VIOLATION property=%s replay=%s" % (PID, path))
    return 1 if bad else 0
