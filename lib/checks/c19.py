"""C19 - optional cargo features are orthogonal.

spec/Features.tla: a configuration is a subset of the eight optional features; MustBuild(F) for every F; the library built
with F offers the operations Provided(F) and ALL configurations share one history machine (Api.tla): a call returns the same
abstract result whichever configuration answers it.
  spec->impl: MC_Features - TLC enumerates the 256 configurations (one state each) with what must hold; each selected one is
              built from /repo's working tree (cargo check of /repo's working tree with a build cache under work/);
  impl->spec: a small executor (featlite/) is compiled against each selected buildable configuration, the same corpus of
              calls (parse+format, JSON and CBOR validation) is run by every one of them, and Trace_Features drives
              Api!Return per recorded answer: an answer that contradicts what another configuration returned is not a
              behaviour of the specification."""
import concurrent.futures
import itertools
import json
import os
import random
import re
import shutil
import subprocess
import tempfile
import time

import cborlib as C
import cddlgen as G
import semcheck
import syngen
import vlib

PID = "C19"
FEATS = ["ast-span", "ast-comments", "ast-parent", "json", "cbor", "csv-validate", "additional-controls", "freezer"]
FEATLITE = os.path.join(vlib.VERIF, "featlite")


def missing_class(s):
    """the listed root cause a non-building configuration falls under (by the feature it lacks), or None"""
    s = set(s)
    if "ast-span" not in s:
        return "C19-build-without-ast-span"
    if "additional-controls" not in s:
        return "C19-build-without-additional-controls"
    if "cbor" not in s:
        return "C19-build-without-cbor"
    if "json" not in s and "csv-validate" not in s:
        return "C19-build-without-json"
    return None


def cargo_check(sets, jobs):
    """cargo check --lib of /repo (current working tree) for each feature set"""
    results = {}
    env = dict(os.environ, CARGO_NET_OFFLINE="true")
    # build caches (not copies of the repository): kept under work/ so that later runs only recompile the crate itself
    dirs = [os.path.join(vlib.VERIF, "work", PID, "check_target_%d" % k) for k in range(jobs)]

    def worker(k):
        out = {}
        for s in sets[k::jobs]:
            feats = ",".join(["std"] + list(s))
            p = subprocess.run(["cargo", "check", "--lib", "--offline", "--no-default-features", "--features", feats, "--message-format", "short"],
                               cwd=vlib.REPO, env=dict(env, CARGO_TARGET_DIR=dirs[k]), stdout=subprocess.PIPE, stderr=subprocess.STDOUT, text=True)
            first = ""
            for line in p.stdout.splitlines():
                if ": error" in line or line.startswith("error"):
                    first = line.strip()[:200]
                    break
            out[tuple(s)] = (p.returncode == 0, first)
        return out
    try:
        with concurrent.futures.ThreadPoolExecutor(max_workers=jobs) as ex:
            for r in ex.map(worker, range(jobs)):
                results.update(r)
    finally:
        pass
    return results


def build_featlite(s, bindir):
    lock = os.path.join(FEATLITE, "Cargo.lock")
    if not os.path.exists(lock):
        shutil.copy(os.path.join(vlib.REPO, "Cargo.lock"), lock)
    p = subprocess.run(["cargo", "build", "--offline", "--no-default-features", "--features", ",".join(s)], cwd=FEATLITE,
                       env=dict(os.environ, CARGO_NET_OFFLINE="true"), stdout=subprocess.PIPE, stderr=subprocess.STDOUT, text=True)
    if p.returncode != 0:
        return None, p.stdout[-3000:]
    dst = os.path.join(bindir, "featlite_" + "_".join(x[:4] + str(len(x)) for x in s))
    shutil.copy(os.path.join(FEATLITE, "target", "debug", "featlite"), dst)
    return dst, ""


def run_featlite(binary, ops, timeout=600):
    p = subprocess.run([binary], input="".join(json.dumps(o) + "\n" for o in ops), stdout=subprocess.PIPE, stderr=subprocess.DEVNULL, text=True, timeout=timeout)
    res = {}
    for line in p.stdout.splitlines():
        try:
            o = json.loads(line)
            res[o["id"]] = o["obs"]
        except ValueError:
            pass
    return [res.get(o["id"], {"crash": True}) for o in ops]


TOKEN = re.compile(r'''"(?:\\.|[^"\\])*"|'(?:\\.|[^'\\])*'|[A-Za-z0-9_@$.+-]+|//=|/=|//|=>|[^\s]''')


def squeeze(text):
    """the token sequence of a formatted text (literals, names / numbers, operators, punctuation), joined by one blank:
    white space between tokens is layout, a missing blank that fuses two names is not"""
    return " ".join(TOKEN.findall(text))


def abstract(op, obs):
    """abstract result compared across configurations: acceptance (+ formatted text for parse), validation verdict"""
    if op["op"] == "parse":
        if obs.get("ok") is True:
            return {"kind": "accepted", "errs": [{"loc": "fmt", "reason": squeeze(obs.get("fmt", ""))}]}
        if obs.get("ok") is False:
            return {"kind": "rejected", "errs": []}
    elif "kind" in obs:
        return {"kind": "ok" if obs["kind"] == "ok" else "error", "errs": []}
    return {"kind": "other", "errs": [{"loc": "", "reason": json.dumps(obs, sort_keys=True)[:200]}]}


def _to_val(x):
    if x is None:
        return dict(C.NULL)
    if isinstance(x, bool):
        return C.mk_bool(x)
    if isinstance(x, int):
        return C.mk_int(x)
    if isinstance(x, float):
        return C.mk_float(x)
    if isinstance(x, str):
        return C.mk_text(x)
    if isinstance(x, list):
        return C.mk_arr([_to_val(i) for i in x])
    return C.mk_map([(C.mk_text(k), _to_val(v)) for k, v in x.items()])


def corpus(rnd, n):
    ops = []
    for fmt in ("json", "cbor"):
        for c in semcheck.gen_pairs(rnd, fmt, n, per_schema=3):
            op = semcheck.case_to_op(c, 0)
            ops.append(op)
    # documents of the full-syntax generator without comments (comments need ast-comments), and some rejected texts
    texts = []
    for _ in range(n):
        g = G.Gen(rnd, fmt="cbor", max_rules=4, depth=2, profile="shared")
        texts.append(G.render(g.schema()))
    # groups written without the optional commas, 1-5 entries, arrays and maps
    names = ["int", "tstr", "bool", "nil", "uint"]
    for k in range(1, 6):
        texts.append("t = [ %s ]\n" % " ".join(names[:k]))
        texts.append("m = { %s }\n" % " ".join("%s: %s" % ("abcde"[i], names[i]) for i in range(k)))
        texts.append("g = ( %s )\nt = [g]\n" % " ".join("? " + n for n in names[:k]))
    texts += ["a = ", "a = [", "= int", "a = {b: }", "a = 1 b = 2", "a = int\nb = a / tstr\n", "a = #6.32(tstr)\n", "a = { * tstr => any }\n", "a<T> = [T]\nb = a<int>\n"]
    for tx in texts:
        ops.append({"op": "parse", "cddl": tx})
    # control operators beyond RFC 8610 (feature additional-controls, some need freezer): same verdict wherever they exist
    abnf = "stamp = text .abnf (\"stamp\" .det grammar)\ngrammar = '\n  stamp = 4DIGIT \"-\" 2DIGIT\n  DIGIT = %x30-39\n'\n"
    extra = [(abnf, '"2024-06"', []), (abnf, '"20x4-06"', []),
             ('a = tstr .regexp "[a-c]+"\n', '"abc"', []), ('a = tstr .regexp "[a-c]+"\n', '"abd"', []),
             ('a = tstr .pcre "^a.c$"\n', '"abc"', ["freezer"]), ('a = tstr .pcre "^a.c$"\n', '"abcd"', ["freezer"]),
             ('a = tstr .iregexp "a[0-9]"\n', '"a1"', ["freezer"]), ('a = tstr .iregexp "a[0-9]"\n', '"ab"', ["freezer"]),
             ('a = "foo" .cat "bar"\n', '"foobar"', []), ('a = "foo" .cat "bar"\n', '"foo"', []),
             ('a = 1 .plus 2\n', '3', []), ('a = 1 .plus 2\n', '4', []),
             ('a = uint .bits flags\nflags = &(x: 0, y: 2)\n', '5', []), ('a = uint .bits flags\nflags = &(x: 0, y: 2)\n', '2', []),
             ('a = tstr .b64u \'hello\'\n', '"aGVsbG8"', []), ('a = tstr .b64u \'hello\'\n', '"aGVsbG8h"', []),
             ('a = tstr .hexlc \'hi\'\n', '"6869"', []), ('a = tstr .hexlc \'hi\'\n', '"6869ff"', []),
             ('a = tstr .default "x"\n', '"y"', []), ('a = [* int] .eq [1, 2]\n', '[1,2]', []), ('a = [* int] .ne [1, 2]\n', '[1,2]', []),
             ('a = tstr .feature "f"\n', '"x"', []), ('a = tstr .feature "f"\n', '1', [])]
    for sch, doc, uses in extra:
        ops.append({"op": "validate_json", "cddl": sch, "json": doc, "uses": uses})
        ops.append({"op": "validate_cbor", "cddl": sch, "hex": bytes(C.encode(_to_val(json.loads(doc)))).hex(), "uses": uses})
    for i, o in enumerate(ops):
        o["id"] = i + 1
    return ops


def run():
    t0 = time.time()
    t = vlib.tier()
    rnd = random.Random(vlib.seed() * 919 + 19)
    wd = vlib.workdir(PID)
    findings = vlib.load_findings(PID)
    finding_ids = {f["id"] for f in findings}
    out = vlib.Outcome(PID)
    cfg = os.path.join(wd, "MC_Features.cfg")
    vlib.write_cfg(cfg, invariants=["Emit"])
    res = vlib.tlc("MC_Features", cfg, wd, workers=4, timeout=600)
    vlib.tlc_must(res, "MC_Features")
    recs = [o for tag, o in res.lines if tag == "R"]
    if len(recs) != 256:
        raise vlib.ToolError("MC_Features: expected 256 configurations, got %d" % len(recs))
    allsets = [tuple(f for f in FEATS if f in r["set"]) for r in recs]
    if t == "quick":
        chosen = {tuple(FEATS), (), ("ast-span", "json", "cbor", "additional-controls")}
        chosen |= {tuple(f for f in FEATS if f != x) for x in FEATS}
        chosen |= {(x,) for x in FEATS}
        pool = [s for s in allsets if s not in chosen]
        chosen |= set(rnd.sample(pool, 6))
        sets = [s for s in allsets if s in chosen]
        jobs = 3
    else:
        sets = allsets
        jobs = 6
    builds = cargo_check(sets, jobs)
    events = [{"ev": "Build", "set": list(s), "ok": builds[s][0]} for s in sets]
    where = [("build", s) for s in sets]
    buildable = [s for s in sets if builds[s][0]]
    vlib.log("%d of %d checked configurations build (%.0fs)" % (len(buildable), len(sets), time.time() - t0))
    # ---- behaviour across buildable configurations
    bindir = os.path.join(wd, "bin")
    shutil.rmtree(bindir, ignore_errors=True)
    os.makedirs(bindir)
    if t == "quick":
        sel = [s for s in buildable if s == tuple(FEATS)] + [s for s in buildable if s == ("ast-span", "json", "cbor", "additional-controls")]
        rest = [s for s in buildable if s not in sel]
        sel += rnd.sample(rest, min(1, len(rest)))
    else:
        sel = list(buildable)
    ops = corpus(rnd, 60 if t == "quick" else 400)
    events.append({"ev": "Begin", "n": len(ops)})
    where.append(None)
    bins = []
    for s in sel:
        b, err = build_featlite(s, bindir)
        if b is None:
            out.violation("executor-does-not-build:" + ",".join(s), {"property": PID, "kind": "featlite-build", "set": list(s), "log": err[-1500:]})
            continue
        bins.append((s, b))
    answered = 0
    spaced = {}       # call id -> set of formatted texts (white space collapsed) seen across configurations
    for s, b in bins:
        obs = run_featlite(b, ops)
        for o, ob in zip(ops, obs):
            if o["op"] == "parse" and ob.get("ok") is True:
                spaced.setdefault(o["id"], set()).add(" ".join(ob.get("fmt", "").split()))
        provided = {"parse"} | ({"validate_json"} if "json" in s else set()) | ({"validate_cbor"} if "cbor" in s else set())
        for o, ob in zip(ops, obs):
            if o["op"] not in provided or not set(o.get("uses", [])) <= set(s):
                continue
            events.append({"ev": "Call", "set": list(s), "op": o["op"], "uses": o.get("uses", []), "id": o["id"], "res": abstract(o, ob)})
            where.append(("call", s, o, ob))
            answered += 1
    shutil.rmtree(bindir, ignore_errors=True)
    # ---- judge
    path = os.path.join(wd, "Trace_Features.ndjson")
    with open(path, "w") as f:
        for e in events:
            f.write(json.dumps(e) + "\n")
    tcfg = os.path.join(wd, "Trace_Features.cfg")
    vlib.write_cfg(tcfg, postcondition="Consumed")
    r = vlib.tlc("Trace_Features", tcfg, wd, env_extra={"TRACE": path}, workers=1, timeout=1800, xmx="3g")
    if not r.ok:
        raise vlib.ToolError("Trace_Features failed:\n" + r.raw_tail)
    nbad_build = 0
    for tag, o in r.lines:
        if tag != "V":
            continue
        if o["v"] == "unconsumed":
            raise vlib.ToolError("trace not consumed: %s" % o)
        w = where[o["l"] - 1]
        if w[0] == "build":
            s = w[1]
            cls = missing_class(s)
            nbad_build += 1
            if cls in finding_ids:
                out.known_hit(cls)
            else:
                out.violation("does-not-build:" + ",".join(s)[:120], {"property": PID, "kind": "build", "set": list(s), "first_error": builds[s][1],
                                                                      "cmd": "cargo check --lib --no-default-features --features std," + ",".join(s)})
        elif o["v"] == "unrelated":
            raise vlib.ToolError("driver recorded an operation the configuration does not provide: %s" % (w[1],))
        else:
            _, s, op, ob = w
            out.violation("configurations-disagree:%s:%s" % (op["op"], ",".join(x for x in FEATS if x not in s)),
                          {"property": PID, "kind": "behaviour", "set": list(s), "op": op, "observed": ob, "verdict": o["v"],
                           "spec": "Features / Api!Return (shared history of all configurations)"})
    os.remove(path)
    # listed finding: the two printer copies space tokens differently (same tokens, different white space)
    n_spacing = sum(1 for v in spaced.values() if len(v) > 1)
    if n_spacing:
        if "C19-printer-spacing-without-ast-comments" in finding_ids:
            for _ in range(n_spacing):
                out.known_hit("C19-printer-spacing-without-ast-comments")
        else:
            out.violation("formatted-text-spacing", {"property": PID, "kind": "spacing", "texts": sorted(next(v for v in spaced.values() if len(v) > 1))})
    wall = time.time() - t0
    if len(bins) < 2 or answered < 200:
        raise vlib.ToolError("vacuity gate: %d executors, %d answers" % (len(bins), answered))
    cov = {"states": res.distinct, "transitions": res.generated, "traces_validated_against_impl": 1, "evaluations": len(sets) + answered,
           "distinct_nontrivial": len(ops) * (len(bins) - 1),
           "rule": "TLC enumerates the 256 configurations; cargo check of %d of them (quick: all 8, none, each single feature, each all-but-one, the smallest buildable one, 6 random; "
                   "thorough: all 256); %d buildable configurations get an executor, each answers the same %d calls (parse+format without comments, JSON and CBOR validation); "
                   "Trace_Features requires every build to succeed and every answer to agree with the shared history. Non-trivial/distinct = calls answered identically by a further configuration."
                   % (len(sets), len(bins), len(ops)),
           "samples": [{"set": list(s), "builds": builds[s][0], "first_error": builds[s][1]} for s in sets[:6]],
           "configurations_checked": len(sets), "configurations_building": len(buildable), "configurations_failing": nbad_build,
           "executors": [list(s) for s, _ in bins], "answers": answered, "exhaustive": t != "quick",
           "exhaustive_scope": {"configurations": 256 if t != "quick" else len(sets)},
           "known_finding_hits": out.known, "checker_cmd": "tlc MC_Features (Emit) ; cargo check per configuration ; tlc Trace_Features"}
    vlib.write_evidence(PID, "exploration", cov, wall, len(out.violations),
                        ["std is always on (the crate does not build without it by design)",
                         "formatted text is compared after whitespace normalisation; inputs contain no comments and no non-RFC control operators",
                         "validation results are compared as verdicts, not message texts"])
    return out.finish(findings)


def replay(path):
    with open(path) as f:
        p = json.load(f)
    if p.get("kind") == "build":
        d = tempfile.mkdtemp(prefix="c19_replay_", dir="/tmp")
        try:
            r = subprocess.run(["cargo", "check", "--lib", "--offline", "--no-default-features", "--features", "std," + ",".join(p["set"])], cwd=vlib.REPO,
                               env=dict(os.environ, CARGO_TARGET_DIR=d), stdout=subprocess.PIPE, stderr=subprocess.STDOUT, text=True)
        finally:
            shutil.rmtree(d, ignore_errors=True)
        print(r.stdout[-1500:])
        if r.returncode != 0:
            print("VIOLATION property=%s replay=%s" % (PID, path))
            return 1
        return 0
    print(json.dumps(p)[:1500])
    print("VIOLATION property=%s replay=%s" % (PID, path))
    return 1
