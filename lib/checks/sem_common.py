"""C01 / C02: validator verdicts equal RFC 8610 semantics on the core language.

spec -> impl : MC_Sem enumerates scopes A (arrays, PEG), B (maps), C (scalars, ranges, controls), D (rule graphs);
               every state is a (schema, value) pair with the verdict CddlSem!Expected assigns; each is rendered and
               replayed into the real validator.
impl -> spec : random schemas (depth <= 3, up to 4 rules) with valid-by-construction instances, near-miss mutants
               and unrelated values are validated by the real code; Trace_Sem judges every recorded event.
"""
import collections
import json
import os
import random
import time

import cborlib as C
import cddlgen as G
import semcheck
import shrink
import vlib


def observed_verdict(obs):
    """'T' / 'F' for a validation verdict, None for anything else (crash, schema rejected...)"""
    k = obs.get("kind")
    if k == "ok":
        return "T"
    if k == "validation":
        return "F"
    return None


def run_sem(pid, fmt):
    t0 = time.time()
    t = vlib.tier()
    rnd = random.Random(vlib.seed() * 104729 + (1 if fmt == "json" else 2))
    wd = vlib.workdir(pid)
    findings = vlib.load_findings(pid)
    known_dev = sorted(f["dev"] for f in findings if f.get("dev"))
    dev_to_id = {f["dev"]: f["id"] for f in findings if f.get("dev")}
    out = vlib.Outcome(pid)
    samples = []
    stats = collections.Counter()
    states = transitions = 0
    nontrivial = set()
    tagcov = collections.Counter()

    pending = []          # (case, obs) mismatching the strict expectation -> classified by Trace_Sem with deviation flags

    # ---------------- E: exhaustive scopes from TLC
    scopes = ["A", "B", "C", "D"]
    for sc in scopes:
        cfg = os.path.join(wd, "MC_Sem_%s.cfg" % sc)
        vlib.write_cfg(cfg, constants={"Scope": '"%s"' % sc, "Fmt": '"%s"' % fmt, "KnownDev": vlib.tla_set(known_dev),
                                       "Quick": "TRUE" if t == "quick" else "FALSE"}, invariants=["Emit"])
        res = vlib.tlc("MC_Sem", cfg, wd, workers=8, timeout=2400)
        vlib.tlc_must(res, "MC_Sem scope " + sc)
        gen = [o for tag, o in res.lines if tag == "R"]
        if len(gen) != res.distinct or not gen:
            raise vlib.ToolError("replay records lost in scope %s: %d vs %d" % (sc, len(gen), res.distinct))
        states += res.distinct
        transitions += res.generated
        cases = [{"fmt": fmt, "rules": g["rules"], "val": g["val"]} for g in gen]
        ops, results = semcheck.run_cases(cases)
        vlib.log("scope %s: %d pairs from TLC (%.1fs), replayed" % (sc, len(gen), res.wall))
        for g, c, o, r in zip(gen, cases, ops, results):
            obs = r["obs"]
            ov = observed_verdict(obs)
            stats["scope_" + sc] += 1
            if g["x"] == "E":
                stats["either"] += 1
                continue
            if ov == g["x"]:
                stats["agree_" + ov] += 1
                nontrivial.add(hash(json.dumps([g["rules"], g["val"]], sort_keys=True)))
                if len(samples) < 4 and ov == "T" and g["val"]["k"] in ("arr", "map") and rnd.random() < 0.01:
                    samples.append({"scope": sc, "cddl": o["cddl"], "doc": o.get("json") or o.get("hex"), "expected": g["x"], "observed": ov})
                continue
            if ov is None:
                report_other(out, pid, c, o, obs)
                continue
            if g["d"] in (ov, "E"):
                pending.append((c, o, obs, True))
            else:
                pending.append((c, o, obs, False))

    # ---------------- R: recorded executions on random cases, judged by TLC
    n_schemas = 250 if t == "quick" else 6000
    cases = semcheck.gen_pairs(rnd, fmt, n_schemas) + semcheck.gen_pairs(rnd, fmt, n_schemas // 2, profile="shared")
    if fmt == "cbor":
        # CBOR-only constructs (tags, major types, non-text keys, big numbers), and encoding independence: a third of the
        # documents is encoded with random non-preferred choices (argument widths, indefinite lengths, float widths)
        cases += semcheck.gen_pairs(rnd, fmt, n_schemas // 2, profile="cborx")
        for c in cases:
            if rnd.random() < 0.33:
                c["bytes"] = list(C.encode(c["val"], C.Choices(rnd, p=rnd.choice([0.3, 0.7]))))
    ops, results = semcheck.run_cases(cases)
    events = []
    evmeta = []
    for c, o, r in zip(cases, ops, results):
        obs = r["obs"]
        ov = observed_verdict(obs)
        if ov is None:
            report_other(out, pid, c, o, obs)
            continue
        ev = {"fmt": fmt, "rules": c["rules"], "val": c["val"], "ok": ov == "T"}
        if c.get("bytes") is not None:
            ev["bytes"] = list(c["bytes"])
        events.append(ev)
        evmeta.append((c, o, obs))
        for tg in semcheck.tags_of_rules(c["rules"]):
            tagcov[tg] += 1
    for c, o, obs, _ in pending:
        events.append({"fmt": fmt, "rules": c["rules"], "val": c["val"], "ok": observed_verdict(obs) == "T"})
        evmeta.append((c, o, obs))
    verdicts = semcheck.judge(events, wd, known_dev)
    vlib.log("recorded %d events, TLC flagged %d" % (len(events), len(verdicts)))
    bad = []
    for i, (c, o, obs) in enumerate(evmeta):
        v = verdicts.get(i, "ok")
        if v == "ok":
            stats["agree_" + ("T" if events[i]["ok"] else "F")] += 1
            nontrivial.add(hash(json.dumps([c["rules"], c["val"]], sort_keys=True)))
            if len(samples) < 8 and events[i]["ok"] and rnd.random() < 0.02:
                samples.append({"source": "recorded", "cddl": o["cddl"], "doc": o.get("json") or o.get("hex"), "observed": "T", "spec": "agrees"})
        elif v == "either":
            stats["either"] += 1
        elif v == "unrelated":
            raise vlib.ToolError("the driver's CBOR encoder produced bytes that the specification's decoder does not read back as the value: %s -> %s"
                                 % (json.dumps(c["val"])[:300], o.get("hex")))
        elif v.startswith("known:"):
            d = v.split(":", 1)[1]
            out.known_hit(dev_to_id.get(d, pid + "-" + d))
            stats["known"] += 1
        else:
            bad.append((i, v))
    # ---------------- violations: minimise (bounded) and report
    for i, v in bad[:6]:
        c, o, obs = evmeta[i]
        want = v

        def still(cs, want=want):
            ops2, res2 = semcheck.run_cases(cs)
            ev2, idx = [], []
            flags = [False] * len(cs)
            for k, (cc, rr) in enumerate(zip(cs, res2)):
                ov2 = observed_verdict(rr["obs"])
                if ov2 is None:
                    continue
                ev2.append({"fmt": fmt, "rules": cc["rules"], "val": cc["val"], "ok": ov2 == "T"})
                idx.append(k)
            vv = semcheck.judge(ev2, wd, known_dev)
            for j, k in enumerate(idx):
                flags[k] = vv.get(j) == want
            return flags
        try:
            m = shrink.minimise(c, still, max_rounds=12)
        except vlib.ToolError:
            m = c
        mop = semcheck.case_to_op(m, 0)
        sig = "%s:%s:%s" % (v, ",".join(sorted(semcheck.tags_of_rules(m["rules"]))), ",".join(sorted(semcheck.value_tags(m["val"]))))
        out.violation(sig, {"property": pid, "fmt": fmt, "expected": v.split(":")[1], "observed": "T" if events[i]["ok"] else "F",
                            "minimised": {"cddl": mop["cddl"], "doc": mop.get("json") or mop.get("hex"), "rules": m["rules"], "val": m["val"]},
                            "original": {"cddl": o["cddl"], "doc": o.get("json") or o.get("hex")},
                            "errors": obs.get("errors", [])[:3], "spec": "CddlSem!Expected"})
    for i, v in bad[6:40]:
        c, o, obs = evmeta[i]
        sig = "%s:%s" % (v, ",".join(sorted(semcheck.tags_of_rules(c["rules"]))))
        out.violation(sig, {"property": pid, "fmt": fmt, "expected": v.split(":")[1], "observed": "T" if events[i]["ok"] else "F",
                            "original": {"cddl": o["cddl"], "doc": o.get("json") or o.get("hex"), "rules": c["rules"], "val": c["val"]},
                            "spec": "CddlSem!Expected"})

    vlib.rerun_witnesses(out, findings, fmt)

    total = sum(v for k, v in stats.items() if k.startswith("scope_")) + len(cases)
    either = stats["either"]
    if total and either * 10 > total:
        raise vlib.ToolError("vacuity gate: %d of %d cases are 'either'" % (either, total))
    wall = time.time() - t0
    cov = {
        "states": states, "transitions": transitions,
        "traces_validated_against_impl": len(events),
        "evaluations": total, "distinct_nontrivial": len(nontrivial),
        "rule": "TLC enumerates scopes A-D of MC_Sem (each (schema,value) pair is a state with the verdict CddlSem!Expected); random "
                "schemas with valid-by-construction instances, near-miss mutants and unrelated values are validated by the real code and "
                "judged by Trace_Sem. Non-trivial/distinct = distinct (schema,value) pairs whose expected verdict is determined (not 'either') "
                "and on which implementation and specification agreed.",
        "samples": samples or [{"note": "no sample drawn"}],
        "exhaustive": True,
        "agree_accept": stats["agree_T"], "agree_reject": stats["agree_F"], "either": either, "known_finding_cases": stats["known"],
        "scope_sizes": {k: v for k, v in stats.items() if k.startswith("scope_")},
        "random_cases": len(cases),
        "construct_coverage_random": dict(tagcov.most_common(60)),
        "known_finding_hits": out.known,
        "checker_cmd": "tlc MC_Sem (Emit) x scopes A-D ; tlc Trace_Sem",
    }
    if stats["agree_T"] < 50 or stats["agree_F"] < 50:
        raise vlib.ToolError("vacuity gate: too few agreeing accepts/rejects %s" % dict(stats))
    vlib.write_evidence(pid, "model_checking", cov, wall, len(out.violations),
                        ["RFC 8610 matching rules transcribed into spec/CddlSem.tla from memory (no network)",
                         "maps are matched declaratively; where the existential and the greedy reading differ the case is 'either'",
                         "an integral JSON float and the integer it denotes are not distinguished ('either')",
                         "renderer lib/cddlgen.py and the executor projection are trusted glue",
                         "constructs outside the generated fragment: see DESIGN.md (fragment discipline) and known_findings.json"])
    return out.finish(findings)


def report_other(out, pid, c, o, obs):
    kind = obs.get("kind") or sorted(obs)[0]
    if kind == "doc":
        raise vlib.ToolError("renderer produced a malformed document: %s" % json.dumps(o)[:400])
    sig = "outcome:%s:%s" % (kind, ",".join(sorted(semcheck.tags_of_rules(c["rules"])))[:200])
    out.violation(sig, {"property": pid, "kind": "no-verdict", "cddl": o["cddl"], "doc": o.get("json") or o.get("hex"),
                        "observed": {k: v for k, v in obs.items() if k != "errors"}, "rules": c["rules"], "val": c["val"],
                        "spec": "every schema of the fragment is derivable and every call returns a verdict"})


def replay(pid, fmt, path):
    with open(path) as f:
        p = json.load(f)
    wd = vlib.workdir(pid)
    src = p.get("minimised") or p.get("original") or p
    rules, val = src.get("rules") or p.get("rules"), src.get("val") or p.get("val")
    case = {"fmt": fmt, "rules": rules, "val": val}
    ops, res = semcheck.run_cases([case])
    obs = res[0]["obs"]
    print("cddl:", ops[0]["cddl"].strip())
    print("doc :", ops[0].get("json") or ops[0].get("hex"))
    print("observed:", {k: v for k, v in obs.items() if k != "errors"})
    ov = observed_verdict(obs)
    if ov is None:
        print("VIOLATION property=%s replay=%s" % (pid, path))
        return 1
    findings = vlib.load_findings(pid)
    known_dev = sorted(f["dev"] for f in findings if f.get("dev"))
    v = semcheck.judge([{"fmt": fmt, "rules": rules, "val": val, "ok": ov == "T"}], wd, known_dev)
    print("spec verdict:", v.get(0, "ok"))
    if v.get(0, "ok").startswith("bad"):
        print("VIOLATION property=%s replay=%s" % (pid, path))
        return 1
    return 0
