"""Driver-side refactoring engine for C08: proposes steps of the machine in spec/Refactor.tla on the abstract schema encoding.
It decides nothing: every proposed step (kind, args, S, S2) is re-derived by TLC (Trace_Refactor: Refactor!Step) and a
proposal the specification does not allow is reported as 'unrelated' (a driver bug), never as a violation.
Paths are as in the specification: [rule index (1-based), field, ..., index (1-based), ...]."""
import copy

import cddlgen as G

PRELUDE = {"any", "uint", "nint", "int", "bstr", "bytes", "tstr", "text", "float", "float16", "float32", "float64", "float16-32", "float32-64",
           "false", "true", "bool", "nil", "null", "undefined", "number", "tdate", "time", "biguint", "bignint", "bigint", "integer", "unsigned",
           "uri", "b64url", "b64legacy", "regexp", "mime-message", "cbor-any", "encoded-cbor", "eb64url", "eb64legacy", "eb16", "decfrac", "bigfloat"}
T1_KINDS = {"lit", "ref", "paren", "map", "arr", "unwrap", "enumg", "enumr", "tag", "major", "any", "range", "ctl"}


def get(x, p):
    for s in p:
        x = x[s - 1] if isinstance(s, int) else x[s]
    return x


def put(x, p, v):
    x = copy.deepcopy(x)
    if not p:
        return copy.deepcopy(v)
    cur = x
    for s in p[:-1]:
        cur = cur[s - 1] if isinstance(s, int) else cur[s]
    s = p[-1]
    if isinstance(s, int):
        cur[s - 1] = copy.deepcopy(v)
    else:
        cur[s] = copy.deepcopy(v)
    return x


def is_type(x):
    return isinstance(x, dict) and "alts" in x


def is_entry(x):
    return isinstance(x, dict) and x.get("k") in ("ent", "name", "sub") and "lo" in x


def is_t1(x):
    return isinstance(x, dict) and not is_entry(x) and "kk" not in x and x.get("k") in T1_KINDS


# ------------------------------------------------------------------ positions
def paths(rules):
    out = []

    def pt(t, p):
        out.append(p)
        for i, a in enumerate(t["alts"]):
            p1(a, p + ["alts", i + 1])

    def p1(t, p):
        out.append(p)
        k = t["k"]
        if k in ("paren", "tag"):
            pt(t["t"], p + ["t"])
        elif k in ("map", "arr", "enumg"):
            pg(t["g"], p + ["g"])
        elif k == "range":
            p1(t["lo"], p + ["lo"])
            p1(t["hi"], p + ["hi"])
        elif k == "ctl":
            p1(t["t"], p + ["t"])
            p1(t["arg"], p + ["arg"])
        elif k == "ref":
            for i, a in enumerate(t["args"]):
                p1(a, p + ["args", i + 1])

    def pg(g, p):
        for j, alt in enumerate(g["galts"]):
            for i, e in enumerate(alt):
                pe(e, p + ["galts", j + 1, i + 1])

    def pe(e, p):
        out.append(p)
        if e["k"] == "ent":
            pt(e["t"], p + ["t"])
            if e["key"]["kk"] == "type":
                p1(e["key"]["t"], p + ["key", "t"])
        elif e["k"] == "sub":
            pg(e["g"], p + ["g"])
        else:
            for i, a in enumerate(e["args"]):
                p1(a, p + ["args", i + 1])
    for i, r in enumerate(rules):
        if r["kind"] == "type":
            pt(r["t"], [i + 1, "t"])
        else:
            pe(r["e"], [i + 1, "e"])
    return out


# ------------------------------------------------------------------ names
def refs_node(x):
    out = set()

    def walk(o):
        if isinstance(o, dict):
            if o.get("k") in ("ref", "unwrap", "enumr", "name") and "n" in o and "args" in o:
                out.add(o["n"])
            for k, v in o.items():
                if k in ("v", "cp"):
                    continue
                walk(v)
        elif isinstance(o, list):
            for v in o:
                walk(v)
    walk(x)
    return out


def body(r):
    return r["t"] if r["kind"] == "type" else r["e"]


def rule_refs(r):
    return refs_node(body(r)) - set(r["params"])


def defined(S):
    return {r["name"] for r in S}


def all_params(S):
    return {p for r in S for p in r["params"]}


def all_names(S):
    out = defined(S) | all_params(S)
    for r in S:
        out |= refs_node(body(r))
    return out


def reach(S):
    N = {S[0]["name"]}
    while True:
        N2 = set(N)
        for r in S:
            if r["name"] in N:
                N2 |= rule_refs(r)
        if N2 == N:
            return N
        N = N2


def fresh(S, prefix, socks=()):
    used = all_names(S) | PRELUDE | set(socks)
    i = 1
    while "%s%d" % (prefix, i) in used:
        i += 1
    return "%s%d" % (prefix, i)


def is_sock(n):
    return n.startswith("$")


def wf(S, socks):
    if not S or S[0]["kind"] != "type" or S[0]["params"]:
        return False
    d = defined(S) | PRELUDE | set(socks)
    for r in S:
        if not rule_refs(r) <= d:
            return False
    for a in S:
        for b in S:
            if a["name"] == b["name"] and (a["kind"] != b["kind"] or a["params"] != b["params"]):
                return False
    return True


# ------------------------------------------------------------------ substitution (mirrors CddlSem!SubT)
def sub1(t, s):
    k = t["k"]
    if k == "ref":
        if t["n"] in s and not t["args"]:
            return copy.deepcopy(s[t["n"]])
        return dict(t, args=[sub1(a, s) for a in t["args"]])
    if k in ("paren", "tag"):
        return dict(t, t=subt(t["t"], s))
    if k in ("map", "arr", "enumg"):
        return dict(t, g=subg(t["g"], s))
    if k in ("unwrap", "enumr"):
        if t["n"] in s and not t["args"] and s[t["n"]]["k"] == "ref":
            return dict(t, n=s[t["n"]]["n"], args=copy.deepcopy(s[t["n"]]["args"]))
        return dict(t, args=[sub1(a, s) for a in t["args"]])
    if k == "range":
        return dict(t, lo=sub1(t["lo"], s), hi=sub1(t["hi"], s))
    if k == "ctl":
        return dict(t, t=sub1(t["t"], s), arg=sub1(t["arg"], s))
    return copy.deepcopy(t)


def subt(t, s):
    return {"alts": [sub1(a, s) for a in t["alts"]]}


def subg(g, s):
    return {"galts": [[sube(e, s) for e in alt] for alt in g["galts"]]}


def sube(e, s):
    if e["k"] == "ent":
        key = e["key"]
        if key["kk"] == "type":
            key = dict(key, t=sub1(key["t"], s))
        return dict(e, t=subt(e["t"], s), key=copy.deepcopy(key))
    if e["k"] == "sub":
        return dict(e, g=subg(e["g"], s))
    if e["n"] in s and not e["args"]:
        return {"k": "ent", "lo": e["lo"], "hi": e["hi"], "key": {"kk": "none"}, "t": {"alts": [copy.deepcopy(s[e["n"]])]}}
    return dict(e, args=[sub1(a, s) for a in e["args"]])


def rules_named(S, n):
    return [r for r in S if r["name"] == n]


def is_type_rule(S, n):
    return any(r["kind"] == "type" for r in rules_named(S, n))


def is_group_rule(S, n):
    return not is_type_rule(S, n) and any(r["kind"] == "group" for r in rules_named(S, n))


def rule_type(S, n):
    return {"alts": [copy.deepcopy(a) for r in S if r["name"] == n and r["kind"] == "type" for a in r["t"]["alts"]]}


def rule_group(S, n):
    return {"galts": [[copy.deepcopy(r["e"])] for r in S if r["name"] == n and r["kind"] == "group"]}


def inst_type(S, n, args):
    ps = rules_named(S, n)[0]["params"]
    if not ps or len(ps) != len(args):
        return rule_type(S, n)
    return subt(rule_type(S, n), dict(zip(ps, args)))


def inst_group(S, n, args):
    ps = rules_named(S, n)[0]["params"]
    if not ps or len(ps) != len(args):
        return rule_group(S, n)
    return subg(rule_group(S, n), dict(zip(ps, args)))


# ------------------------------------------------------------------ forward steps: (S, a) -> S2 or None
def paren_of(x):
    if is_type(x):
        return {"alts": [{"k": "paren", "t": copy.deepcopy(x)}]}
    if is_entry(x):
        return {"k": "sub", "lo": 1, "hi": 1, "g": {"galts": [[copy.deepcopy(x)]]}}
    return {"k": "paren", "t": {"alts": [copy.deepcopy(x)]}}


def unwrap_like(x):
    return (is_t1(x) and x["k"] == "unwrap") or (is_type(x) and len(x["alts"]) == 1 and x["alts"][0]["k"] == "unwrap")


def f_paren(S, a):
    x = get(S, a["path"])
    if not (is_type(x) or is_entry(x) or is_t1(x)) or unwrap_like(x):
        return None
    return put(S, a["path"], paren_of(x))


def insert_at(S, at, r):
    return copy.deepcopy(S[:at - 1]) + [copy.deepcopy(r)] + copy.deepcopy(S[at - 1:])


def f_extract(S, a):
    p = a["path"]
    x = get(S, p)
    i = p[0]
    if len(p) < 2 or a["name"] in all_names(S) | PRELUDE or not (2 <= a["at"] <= len(S) + 1):
        return None
    if refs_node(x) & set(S[i - 1]["params"]) or unwrap_like(x):
        return None
    if is_type(x):
        return insert_at(put(S, p, G.T(G.ref(a["name"]))), a["at"], G.trule(a["name"], x))
    if is_t1(x):
        return insert_at(put(S, p, G.ref(a["name"])), a["at"], G.trule(a["name"], G.T(x)))
    if is_entry(x) and x["k"] in ("ent", "sub"):
        return insert_at(put(S, p, G.name_ent(a["name"], x["lo"], x["hi"])), a["at"], G.grule(a["name"], dict(copy.deepcopy(x), lo=1, hi=1)))
    return None


def f_unfold(S, a):
    p = a["path"]
    x = get(S, p)
    i = p[0]
    if not isinstance(x, dict) or x.get("k") not in ("ref", "name") or "n" not in x:
        return None
    n = x["n"]
    if n in S[i - 1]["params"] or not rules_named(S, n):
        return None
    if len(rules_named(S, n)[0]["params"]) != len(x["args"]):
        return None
    own = set()
    for r in rules_named(S, n):
        own |= rule_refs(r)
    if own & set(S[i - 1]["params"]):
        return None
    if x["k"] == "ref":
        if not is_type_rule(S, n):
            return None
        return put(S, p, {"k": "paren", "t": inst_type(S, n, x["args"])})
    if is_group_rule(S, n):
        return put(S, p, {"k": "sub", "lo": x["lo"], "hi": x["hi"], "g": inst_group(S, n, x["args"])})
    return put(S, p, {"k": "ent", "lo": x["lo"], "hi": x["hi"], "key": {"kk": "none"}, "t": inst_type(S, n, x["args"])})


def f_split(S, a):
    i, k, at = a["idx"], a["k"], a["at"]
    if not (1 <= i <= len(S) and i + 1 <= at <= len(S) + 1):
        return None
    r = S[i - 1]
    if any(S[j - 1]["name"] == r["name"] for j in range(i + 1, at)):
        return None
    S2 = copy.deepcopy(S)
    if r["kind"] == "type":
        alts = r["t"]["alts"]
        if not (1 <= k <= len(alts) - 1):
            return None
        S2[i - 1]["t"]["alts"] = copy.deepcopy(alts[:k])
        new = dict(copy.deepcopy(r), op="/=", t={"alts": copy.deepcopy(alts[k:])})
    else:
        e = r["e"]
        if e["k"] != "sub" or e["lo"] != 1 or e["hi"] != 1:
            return None
        galts = e["g"]["galts"]
        if not (1 <= k <= len(galts) - 1):
            return None
        S2[i - 1]["e"]["g"]["galts"] = copy.deepcopy(galts[:k])
        new = dict(copy.deepcopy(r), op="//=", e=dict(copy.deepcopy(e), g={"galts": copy.deepcopy(galts[k:])}))
    return insert_at(S2, at, new)


def f_socket(S, a):
    i, k, at, name = a["idx"], a["k"], a["at"], a["name"]
    if not (1 <= i <= len(S) and 2 <= at <= len(S) + 1) or name in all_names(S) | PRELUDE or name not in a["socks"]:
        return None
    r = S[i - 1]
    S2 = copy.deepcopy(S)
    if r["kind"] == "type":
        alts = r["t"]["alts"]
        if not (0 <= k <= len(alts) - 1) or refs_node(alts[k:]) & set(r["params"]):
            return None
        S2[i - 1]["t"]["alts"] = copy.deepcopy(alts[:k]) + [G.ref(name)]
        new = G.trule(name, {"alts": copy.deepcopy(alts[k:])}, op="/=")
    else:
        e = r["e"]
        if e["k"] != "sub" or e["lo"] != 1 or e["hi"] != 1:
            return None
        galts = e["g"]["galts"]
        if not (0 <= k <= len(galts) - 1) or refs_node(galts[k:]) & set(r["params"]):
            return None
        S2[i - 1]["e"]["g"]["galts"] = copy.deepcopy(galts[:k]) + [[G.name_ent(name)]]
        new = G.grule(name, {"k": "sub", "lo": 1, "hi": 1, "g": {"galts": copy.deepcopy(galts[k:])}}, op="//=")
    return insert_at(S2, at, new)


def rename_node(o, f):
    if isinstance(o, dict):
        out = {}
        for k, v in o.items():
            if k in ("v", "cp", "key") and k != "key":
                out[k] = copy.deepcopy(v)
            else:
                out[k] = rename_node(v, f)
        if o.get("k") in ("ref", "unwrap", "enumr", "name") and "n" in o and "args" in o:
            out["n"] = f.get(o["n"], o["n"])
        return out
    if isinstance(o, list):
        return [rename_node(v, f) for v in o]
    return o


def f_rename(S, a):
    f = a["map"]
    D, Rg = set(f), set(f.values())
    if not D <= defined(S) or D & set(a["socks"]) or D & all_params(S) or len(Rg) != len(D):
        return None
    if Rg & PRELUDE or Rg & (all_names(S) - D) or Rg & set(a["socks"]):
        return None
    out = []
    for r in S:
        r2 = copy.deepcopy(r)
        r2["name"] = f.get(r["name"], r["name"])
        if r["kind"] == "type":
            r2["t"] = rename_node(r["t"], f)
        else:
            r2["e"] = rename_node(r["e"], f)
        out.append(r2)
    return out


def f_reorder(S, a):
    q = a["perm"]
    if len(q) != len(S) or set(q) != set(range(1, len(S) + 1)) or q[0] != 1:
        return None
    for i in range(len(q)):
        for j in range(i + 1, len(q)):
            if S[q[i] - 1]["name"] == S[q[j] - 1]["name"] and not q[i] < q[j]:
                return None
    return [copy.deepcopy(S[x - 1]) for x in q]


def f_remove(S, a):
    i = a["idx"]
    if not (2 <= i <= len(S)) or S[i - 1]["name"] in reach(S):
        return None
    return copy.deepcopy(S[:i - 1] + S[i:])


FORWARD = {"paren": f_paren, "extract": f_extract, "unfold": f_unfold, "split": f_split, "socket": f_socket, "rename": f_rename,
           "reorder": f_reorder, "remove": f_remove}


def args(**kw):
    a = {"path": [], "name": "", "at": 0, "idx": 0, "k": 0, "map": {"none": "none"}, "perm": [], "socks": [], "rev": False}
    a.update(kw)
    return a


def socks_of(S):
    return sorted(n for n in all_names(S) if is_sock(n))


# ------------------------------------------------------------------ random proposals
def propose(rnd, S, fmt):
    """returns (kind, a, S2) with S2 = step result (forward) or S = step result from S2 (a.rev), or None"""
    socks = socks_of(S)
    ps = paths(S)
    kind = rnd.choice(["paren", "paren", "extract", "extract", "unfold", "unfold", "split", "socket", "rename", "reorder", "remove",
                       "unparen", "merge", "addrule", "fold", "generic"])
    if kind == "paren":
        p = rnd.choice(ps)
        a = args(path=p, socks=socks)
        return "paren", a, f_paren(S, a)
    if kind == "extract":
        p = rnd.choice(ps)
        x = get(S, p)
        name = fresh(S, "g" if is_entry(x) else "x", socks)
        a = args(path=p, name=name, at=rnd.randint(2, len(S) + 1), socks=socks)
        return "extract", a, f_extract(S, a)
    if kind == "unfold":
        cand = [p for p in ps if isinstance(get(S, p), dict) and get(S, p).get("k") in ("ref", "name") and rules_named(S, get(S, p).get("n"))]
        if not cand:
            return None
        a = args(path=rnd.choice(cand), socks=socks)
        return "unfold", a, f_unfold(S, a)
    if kind == "split":
        cand = []
        for i, r in enumerate(S):
            n = len(r["t"]["alts"]) if r["kind"] == "type" else (len(r["e"]["g"]["galts"]) if r["e"]["k"] == "sub" else 0)
            if n >= 2:
                cand.append((i + 1, n))
        if not cand:
            return None
        i, n = rnd.choice(cand)
        later = [j for j in range(i + 1, len(S) + 1) if S[j - 1]["name"] == S[i - 1]["name"]]
        hi = later[0] if later else len(S) + 1
        a = args(idx=i, k=rnd.randint(1, n - 1), at=rnd.randint(i + 1, hi), socks=socks)
        return "split", a, f_split(S, a)
    if kind == "socket":
        i = rnd.randint(1, len(S))
        r = S[i - 1]
        if r["kind"] == "type":
            n = len(r["t"]["alts"])
            name = fresh(S, "$k", socks)
        else:
            if r["e"]["k"] != "sub":
                return None
            n = len(r["e"]["g"]["galts"])
            name = fresh(S, "$$k", socks)
        a = args(idx=i, k=rnd.randint(0, n - 1), name=name, at=rnd.randint(2, len(S) + 1), socks=sorted(socks + [name]))
        return "socket", a, f_socket(S, a)
    if kind == "rename":
        names = sorted(n for n in defined(S) if not is_sock(n) and n not in all_params(S))
        if not names:
            return None
        chosen = rnd.sample(names, rnd.randint(1, min(2, len(names))))
        f = {}
        used = all_names(S) | PRELUDE
        for n in chosen:
            new = rnd.choice(["zz", "r-%s" % n, n + "_2", "q.%s" % n, "T", "int2", "group", "Int"])
            if new in used or new in f.values():
                new = fresh(S, "ren", list(f.values()))
            f[n] = new
        if rnd.random() < 0.3 and len(chosen) == 2:       # swap two names
            f = {chosen[0]: chosen[1], chosen[1]: chosen[0]}
        a = args(map=f, socks=socks)
        return "rename", a, f_rename(S, a)
    if kind == "reorder":
        if len(S) < 3:
            return None
        rest = list(range(2, len(S) + 1))
        rnd.shuffle(rest)
        q = [1] + rest
        # restore the relative order of same-name rules
        byname = {}
        for x in sorted(q[1:]):
            byname.setdefault(S[x - 1]["name"], []).append(x)
        q2 = []
        for x in q:
            q2.append(byname[S[x - 1]["name"]].pop(0) if x != 1 and S[x - 1]["name"] != S[0]["name"] else x)
        a = args(perm=q2, socks=socks)
        return "reorder", a, f_reorder(S, a)
    if kind == "remove":
        cand = [i + 1 for i in range(1, len(S)) if S[i]["name"] not in reach(S)]
        if not cand:
            return None
        a = args(idx=rnd.choice(cand), socks=socks)
        return "remove", a, f_remove(S, a)
    # ---- reverse directions: S2 is built here and the step is S2 -> S
    if kind == "unparen":
        cand = []
        for p in ps:
            x = get(S, p)
            if is_t1(x) and x["k"] == "paren" and len(x["t"]["alts"]) == 1 and x["t"]["alts"][0]["k"] not in ("range", "ctl"):
                cand.append((p, x["t"]["alts"][0]))
            elif is_entry(x) and x["k"] == "sub" and x["lo"] == 1 and x["hi"] == 1 and len(x["g"]["galts"]) == 1 and len(x["g"]["galts"][0]) == 1:
                cand.append((p, x["g"]["galts"][0][0]))
        if not cand:
            return None
        p, inner = rnd.choice(cand)
        S2 = put(S, p, inner)
        a = args(path=p, socks=socks, rev=True)
        return ("paren", a, S2) if f_paren(S2, a) == S else None
    if kind == "merge":
        cand = []
        for i, r in enumerate(S):
            if r["op"] in ("=", "/=", "//=") and (r["kind"] == "type" or r["e"]["k"] == "sub" and r["e"]["lo"] == 1 and r["e"]["hi"] == 1):
                for j in range(i + 1, len(S)):
                    if S[j]["name"] == r["name"]:
                        if S[j]["kind"] == r["kind"] and S[j]["op"] in ("/=", "//=") and (r["kind"] == "type" or S[j]["e"]["k"] == "sub"
                                                                                           and S[j]["e"]["lo"] == 1 and S[j]["e"]["hi"] == 1):
                            cand.append((i + 1, j + 1))
                        break
        if not cand:
            return None
        i, j = rnd.choice(cand)
        S2 = copy.deepcopy(S[:j - 1] + S[j:])
        if S[i - 1]["kind"] == "type":
            k = len(S[i - 1]["t"]["alts"])
            S2[i - 1]["t"]["alts"] = copy.deepcopy(S[i - 1]["t"]["alts"] + S[j - 1]["t"]["alts"])
        else:
            k = len(S[i - 1]["e"]["g"]["galts"])
            S2[i - 1]["e"]["g"]["galts"] = copy.deepcopy(S[i - 1]["e"]["g"]["galts"] + S[j - 1]["e"]["g"]["galts"])
        a = args(idx=i, k=k, at=j, socks=socks, rev=True)
        if S[j - 1]["op"] != ("/=" if S[i - 1]["kind"] == "type" else "//=") or S[i - 1]["op"] != S2[i - 1]["op"]:
            return None
        # the increment produced by the forward step copies the base rule's fields with op '/=': only valid when the base is '='... or an increment itself
        chk = f_split(S2, a)
        return ("split", a, S2) if chk == S else None
    if kind == "addrule":
        g = G.Gen(rnd, fmt=fmt, max_rules=1, depth=1)
        name = fresh(S, "extra", socks)
        new = G.trule(name, g.type(1)) if rnd.random() < 0.7 else G.grule(name, G.sub([[g.array_entry(1)]]))
        if g.pending or refs_node(body(new)) - PRELUDE:
            return None
        at = rnd.randint(2, len(S) + 1)
        S2 = insert_at(S, at, new)
        a = args(idx=at, socks=socks, rev=True)
        return ("remove", a, S2) if f_remove(S2, a) == S else None
    if kind in ("fold", "generic"):
        # S --paren--> S1 --add generic rule--> S2 --fold--> S3 is emitted as three steps by the caller; here only the plan
        cand = [p for p in ps if is_t1(get(S, p)) and get(S, p)["k"] in ("arr", "map", "paren", "ctl", "range", "tag") and len(p) > 2]
        if not cand:
            return None
        p = rnd.choice(cand)
        x = get(S, p)
        i = p[0]
        inner = [q for q in paths([G.trule("_", G.T(x))]) if len(q) > 4 and is_t1(get([G.trule("_", G.T(x))], q))]
        # q = [1, "t", "alts", 1, ...]; positions inside x
        chosen = []
        if kind == "generic" and inner:
            q = rnd.choice(inner)
            sub = get([G.trule("_", G.T(x))], q)
            if sub["k"] not in ("range", "ctl") and q[-1] not in ("lo", "hi", "arg") and not (q[-2:] == ["key", "t"]):
                chosen = [(q[4:], sub)]
        pname = rnd.choice(["P", "T", "X1"])
        if pname in all_names(S) or refs_node(x) & set(S[i - 1]["params"]):
            return None
        gname = fresh(S, "gen", socks)
        bodyx = copy.deepcopy(x)
        argsx = []
        if chosen:
            rel, sub = chosen[0]
            bodyx = put(bodyx, rel, G.ref(pname))
            argsx = [sub]
        else:
            pname = None
        return "plan-fold", {"path": p, "gname": gname, "param": pname, "body": bodyx, "args": argsx, "socks": socks}, None
    return None


def plan_fold_steps(S, plan):
    """three steps realising 'abstract the node at path into a (generic) rule and reference it'"""
    p = plan["path"]
    socks = plan["socks"]
    a1 = args(path=p, socks=socks)
    S1 = f_paren(S, a1)                       # x -> (x)
    new = G.trule(plan["gname"], G.T(plan["body"]), params=[plan["param"]] if plan["param"] else [])
    at = len(S1) + 1
    S2 = insert_at(S1, at, new)               # add the rule (unreachable yet)
    a2 = args(idx=at, socks=socks, rev=True)
    S3 = put(S2, p, G.ref(plan["gname"], plan["args"]))
    a3 = args(path=p, socks=socks, rev=True)   # unfold(S3) = S2
    if f_remove(S2, a2) != S1 or f_unfold(S3, a3) != S2:
        return None
    return [("paren", a1, S1), ("remove", a2, S2), ("unfold", a3, S3)]
