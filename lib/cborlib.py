"""Renderer: abstract Data values -> CBOR bytes with explicit encoding choices, JSON text.
Generators of random Data values.  (Glue: renders, never decides.)

Abstract values (same encoding as spec/Data.tla):
 {"k":"int","neg":b,"mag":[bytes]}  value = -1-mag if neg else mag
 {"k":"float","bits":[8 bytes],"nan":b}
 {"k":"text","cp":[code points]}  {"k":"bytes","bs":[...]}  {"k":"bool","b":b}  {"k":"null"} {"k":"undefined"}
 {"k":"arr","items":[...]} {"k":"map","pairs":[{"key":..,"val":..}]} {"k":"tag","tn":[bytes],"c":v} {"k":"simple","sn":n}
"""
import struct


def nat_bytes(n):
    if n == 0:
        return [0]
    out = []
    while n > 0:
        out.append(n & 0xFF)
        n >>= 8
    return out[::-1]


def bytes_nat(bs):
    n = 0
    for b in bs:
        n = n * 256 + b
    return n


def mk_int(i):
    if i >= 0:
        return {"k": "int", "neg": False, "mag": nat_bytes(i)}
    return {"k": "int", "neg": True, "mag": nat_bytes(-1 - i)}


def int_val(v):
    m = bytes_nat(v["mag"])
    return -1 - m if v["neg"] else m


def mk_float(x):
    bits = list(struct.pack(">d", x))
    nan = x != x
    if nan:
        bits = [127, 248, 0, 0, 0, 0, 0, 0]
    return {"k": "float", "bits": bits, "nan": nan}


def float_val(v):
    return struct.unpack(">d", bytes(v["bits"]))[0]


def mk_text(s):
    return {"k": "text", "cp": [ord(c) for c in s]}


def text_val(v):
    return "".join(chr(c) for c in v["cp"])


def mk_bytes(b):
    return {"k": "bytes", "bs": list(b)}


NULL = {"k": "null"}


def mk_bool(b):
    return {"k": "bool", "b": bool(b)}


def mk_arr(items):
    return {"k": "arr", "items": list(items)}


def mk_map(pairs):
    return {"k": "map", "pairs": [{"key": k, "val": v} for k, v in pairs]}


def mk_tag(n, c):
    return {"k": "tag", "tn": nat_bytes(n), "c": c}


# ------------------------------------------------------------------ CBOR encoding with choices

def head(mt, n, width=0):
    """width 0 = minimal; 1,2,4,8 = that many argument bytes (if n fits)."""
    if width == 0:
        if n < 24:
            return bytes([mt << 5 | n])
        for ai, w in ((24, 1), (25, 2), (26, 4), (27, 8)):
            if n < 1 << (8 * w):
                return bytes([mt << 5 | ai]) + n.to_bytes(w, "big")
        raise ValueError("head too big")
    ai = {1: 24, 2: 25, 4: 26, 8: 27}[width]
    if n >= 1 << (8 * width):
        return head(mt, n, 0)
    return bytes([mt << 5 | ai]) + n.to_bytes(width, "big")


def float_encodings(x):
    """All IEEE widths that represent x exactly (as bytes incl. initial byte)."""
    out = []
    d = struct.pack(">d", x)
    out.append(b"\xfb" + d)
    try:
        s = struct.pack(">f", x)
        if struct.unpack(">f", s)[0] == x or x != x:
            out.append(b"\xfa" + s)
    except OverflowError:
        pass
    try:
        h = struct.pack(">e", x)
        if struct.unpack(">e", h)[0] == x or x != x:
            out.append(b"\xf9" + h)
    except (OverflowError, struct.error):
        pass
    return out


class Choices:
    """Encoding choice source: rnd None -> preferred (minimal, definite, shortest float... f64 default)."""

    def __init__(self, rnd=None, p=0.3):
        self.rnd = rnd
        self.p = p

    def width(self):
        if self.rnd is None or self.rnd.random() > self.p:
            return 0
        return self.rnd.choice([1, 2, 4, 8])

    def indef(self):
        return self.rnd is not None and self.rnd.random() < self.p

    def pick(self, xs):
        if self.rnd is None:
            return xs[-1]  # shortest float last
        return self.rnd.choice(xs)

    def split(self, n):
        """chunk boundaries for an indefinite string of length n"""
        if n == 0 or self.rnd is None:
            return [n] if n else []
        k = self.rnd.randint(1, min(3, n))
        cuts = sorted(self.rnd.sample(range(1, n), k - 1)) if k > 1 else []
        sizes = []
        prev = 0
        for c in cuts + [n]:
            sizes.append(c - prev)
            prev = c
        return sizes


def utf8_split_ok(raw, sizes):
    """chunks of a text string must each be valid UTF-8"""
    pos = 0
    for s in sizes:
        try:
            raw[pos:pos + s].decode("utf-8")
        except UnicodeDecodeError:
            return False
        pos += s
    return True


def encode(v, ch=None):
    ch = ch or Choices()
    k = v["k"]
    if k == "int":
        return head(1 if v["neg"] else 0, bytes_nat(v["mag"]), ch.width())
    if k == "float":
        x = float_val(v)
        if v.get("nan"):
            x = float("nan")
        return ch.pick(float_encodings(x))
    if k in ("text", "bytes"):
        raw = text_val(v).encode("utf-8") if k == "text" else bytes(v["bs"])
        mt = 3 if k == "text" else 2
        if ch.indef():
            sizes = ch.split(len(raw))
            if k == "bytes" or utf8_split_ok(raw, sizes):
                out = bytes([mt << 5 | 31])
                pos = 0
                for s in sizes:
                    out += head(mt, s, ch.width()) + raw[pos:pos + s]
                    pos += s
                return out + b"\xff"
        return head(mt, len(raw), ch.width()) + raw
    if k == "bool":
        return b"\xf5" if v["b"] else b"\xf4"
    if k == "null":
        return b"\xf6"
    if k == "undefined":
        return b"\xf7"
    if k == "simple":
        n = v["sn"]
        return bytes([0xE0 | n]) if n < 24 else bytes([0xF8, n])
    if k == "arr":
        body = b"".join(encode(x, ch) for x in v["items"])
        if ch.indef():
            return b"\x9f" + body + b"\xff"
        return head(4, len(v["items"]), ch.width()) + body
    if k == "map":
        body = b"".join(encode(p["key"], ch) + encode(p["val"], ch) for p in v["pairs"])
        if ch.indef():
            return b"\xbf" + body + b"\xff"
        return head(5, len(v["pairs"]), ch.width()) + body
    if k == "tag":
        return head(6, bytes_nat(v["tn"]), ch.width()) + encode(v["c"], ch)
    raise ValueError(k)


# ------------------------------------------------------------------ JSON rendering (JSON-model values only)

def is_json_model(v):
    k = v["k"]
    if k in ("null", "bool", "text"):
        return True
    if k == "int":
        return -(1 << 63) <= int_val(v) < (1 << 64)
    if k == "float":
        x = float_val(v)
        return not v.get("nan") and x not in (float("inf"), float("-inf"))
    if k == "arr":
        return all(is_json_model(x) for x in v["items"])
    if k == "map":
        keys = [tuple(p["key"].get("cp", [])) for p in v["pairs"]]
        return all(p["key"]["k"] == "text" and is_json_model(p["val"]) for p in v["pairs"]) and len(set(keys)) == len(keys)
    return False


def json_str(s):
    import json
    return json.dumps(s, ensure_ascii=False)


def to_json_text(v):
    k = v["k"]
    if k == "null":
        return "null"
    if k == "bool":
        return "true" if v["b"] else "false"
    if k == "int":
        return str(int_val(v))
    if k == "float":
        x = float_val(v)
        r = repr(x)
        if "." not in r and "e" not in r and "E" not in r:
            r += ".0"
        return r
    if k == "text":
        return json_str(text_val(v))
    if k == "arr":
        return "[" + ",".join(to_json_text(x) for x in v["items"]) + "]"
    if k == "map":
        return "{" + ",".join(json_str(text_val(p["key"])) + ":" + to_json_text(p["val"]) for p in v["pairs"]) + "}"
    raise ValueError("not JSON model: " + k)


# ------------------------------------------------------------------ random values

INT_POOL = [0, 1, 2, 3, 5, 10, 23, 24, 255, 256, 65535, 65536, 2**31 - 1, 2**31, 2**32 - 1, 2**32, 2**53, 2**63 - 1, 2**63, 2**64 - 1,
            -1, -2, -3, -24, -25, -256, -257, -65536, -65537, -2**31, -2**31 - 1, -2**32, -2**32 - 1, -2**63, -2**63 - 1, -2**64]
FLOAT_POOL = [0.0, -0.0, 0.5, 1.5, -2.25, 1.0, 3.0, 65504.0, 5.960464477539063e-08, 6.103515625e-05, 1e-40, 3.4028234663852886e+38,
              1.1, 1e300, 5e-324, float("inf"), float("-inf"), float("nan"), 100000.0, 0.1]
TEXT_POOL = ["", "a", "b", "ab", "abc", "é", "€", "\U0001F600", "aé€", "hello world", "x" * 24, "y" * 256]


def rand_value(rnd, depth=3, full=True):
    """full: the whole CBOR data model; otherwise JSON model"""
    kinds = ["int", "int", "float", "text", "text", "bool", "null"]
    if full:
        kinds += ["bytes", "tag", "simple", "undefined"]
    if depth > 0:
        kinds += ["arr", "arr", "map", "map"]
    k = rnd.choice(kinds)
    if k == "int":
        i = rnd.choice(INT_POOL) if rnd.random() < 0.6 else rnd.randint(-300, 300)
        if not full:
            i = max(-(1 << 63), min(i, (1 << 64) - 1))
        return mk_int(i)
    if k == "float":
        x = rnd.choice(FLOAT_POOL)
        if not full and (x != x or x in (float("inf"), float("-inf"))):
            x = 1.5
        return mk_float(x)
    if k == "text":
        return mk_text(rnd.choice(TEXT_POOL))
    if k == "bytes":
        return mk_bytes(bytes(rnd.randint(0, 255) for _ in range(rnd.choice([0, 1, 2, 3, 24, 30]))))
    if k == "bool":
        return mk_bool(rnd.random() < 0.5)
    if k == "null":
        return dict(NULL)
    if k == "undefined":
        return {"k": "undefined"}
    if k == "simple":
        n = rnd.choice([0, 1, 16, 19, 32, 33, 100, 255])
        return {"k": "simple", "sn": n}
    if k == "tag":
        return mk_tag(rnd.choice([0, 1, 2, 3, 24, 32, 55799, 2**32, 2**64 - 1]), rand_value(rnd, depth - 1, full))
    if k == "arr":
        return mk_arr([rand_value(rnd, depth - 1, full) for _ in range(rnd.randint(0, 4))])
    if k == "map":
        pairs = []
        seen = set()
        for _ in range(rnd.randint(0, 4)):
            key = mk_text(rnd.choice(TEXT_POOL[:8])) if not full or rnd.random() < 0.6 else rand_value(rnd, 0, full)
            ks = repr(key)
            if not full and ks in seen:
                continue
            seen.add(ks)
            pairs.append((key, rand_value(rnd, depth - 1, full)))
        return mk_map(pairs)
    raise ValueError(k)
