"""Relation checks (C04, C08, C09, C10): pairs of real runs judged by spec/Trace_Rel.tla."""
import collections
import json
import os
import time

import semcheck
import vlib


def finish_rel(pid, out, findings, events, metas, wd, known_dev, dev_to_id, t0, states, transitions, rule, samples, extra_cov=None,
               assumptions=None, min_nontrivial=20):
    verdicts = semcheck.judge(events, wd, known_dev, module="Trace_Rel", chunk=1200)
    stats = collections.Counter()
    nontrivial = set()
    for i, (e, meta) in enumerate(zip(events, metas)):
        v = verdicts.get(i, "ok")
        stats[v.split(":")[0]] += 1
        if v == "ok":
            # non-trivial: a related pair that is not literally the same case, with a determinate verdict
            nontrivial.add(hash(json.dumps(e, sort_keys=True)))
            stats["ok_accept" if meta.get("accept") else "ok_reject"] += 1
        elif v == "either":
            pass
        elif v == "unrelated":
            raise vlib.ToolError("harness produced an unrelated pair: %s" % json.dumps(meta)[:600])
        elif v.startswith("known:"):
            d = v.split(":", 1)[1]
            out.known_hit(dev_to_id.get(d, pid + "-" + d))
        else:
            sig = "%s:%s" % (e["ev"], ",".join(sorted(semcheck.tags_of_rules(e["rules"])))[:300])
            out.violation(sig, dict(meta, property=pid, event=e, verdict=v, spec="Trace_Rel!Judge"))
    vlib.rerun_witnesses(out, findings)
    wall = time.time() - t0
    cov = {"states": max(states, 1), "transitions": max(transitions, 1), "traces_validated_against_impl": len(events),
           "evaluations": len(events), "distinct_nontrivial": len(nontrivial), "rule": rule, "samples": samples[:8] or [{"note": "none"}],
           "pairs_equal_accept": stats["ok_accept"], "pairs_equal_reject": stats["ok_reject"], "known_pairs": stats["known"],
           "known_finding_hits": out.known, "checker_cmd": "tlc Trace_Rel"}
    if extra_cov:
        cov.update(extra_cov)
    if stats["ok_accept"] < min_nontrivial or stats["ok_reject"] < min_nontrivial:
        raise vlib.ToolError("vacuity gate: %s" % dict(stats))
    vlib.write_evidence(pid, "model_checking", cov, wall, len(out.violations), assumptions or [])
    return out.finish(findings)


def tlc_scope_pairs(wd, fmt, scopes, quick, known_dev):
    """(rules, val) pairs of MC_Sem scopes (generator use only)"""
    pairs = []
    states = transitions = 0
    for sc in scopes:
        cfg = os.path.join(wd, "MC_Sem_%s.cfg" % sc)
        vlib.write_cfg(cfg, constants={"Scope": '"%s"' % sc, "Fmt": '"%s"' % fmt, "KnownDev": vlib.tla_set(known_dev),
                                       "Quick": "TRUE" if quick else "FALSE"}, invariants=["Emit"])
        res = vlib.tlc("MC_Sem", cfg, wd, workers=8, timeout=2400)
        vlib.tlc_must(res, "MC_Sem scope " + sc)
        gen = [o for tag, o in res.lines if tag == "R"]
        if len(gen) != res.distinct:
            raise vlib.ToolError("replay records lost")
        states += res.distinct
        transitions += res.generated
        pairs += [(g["rules"], g["val"]) for g in gen]
    return pairs, states, transitions
