"""Renderer (CddlAst -> CDDL text) and random generators of schemas / instances.

Glue only: nothing here decides whether a value matches a schema; the instance generator is a
heuristic sampler that *tries* to produce matching values so that both verdicts are exercised.
The expected verdict always comes from spec/CddlSem.tla evaluated by TLC.
"""
import json
import cborlib as C

PRELUDE_JSON = ["int", "uint", "nint", "tstr", "text", "bool", "true", "false", "nil", "null", "any", "float", "number"]
PRELUDE_CBOR = PRELUDE_JSON + ["bstr", "bytes"]


def clamp(i, fmt):
    lo = -(1 << 63) if fmt == "json" else -(1 << 64)
    return max(lo, min(i, (1 << 64) - 1))


# ------------------------------------------------------------------ constructors
def ref(n, args=()):
    return {"k": "ref", "n": n, "args": list(args)}


def lit(v):
    return {"k": "lit", "v": v}


def T(*alts):
    return {"alts": list(alts)}


def paren(t):
    return {"k": "paren", "t": t}


def arr(*galts):
    return {"k": "arr", "g": {"galts": [list(a) for a in galts]}}


def mp(*galts):
    return {"k": "map", "g": {"galts": [list(a) for a in galts]}}


def ent(t, lo=1, hi=1, key=None):
    return {"k": "ent", "lo": lo, "hi": hi, "key": key or {"kk": "none"}, "t": t}


def kbare(n):
    return {"kk": "bare", "n": n, "cp": [ord(c) for c in n]}


def kval(v):
    return {"kk": "val", "v": v}


def ktype(t1, cut=False):
    return {"kk": "type", "t": t1, "cut": cut}


def name_ent(n, lo=1, hi=1, args=()):
    return {"k": "name", "lo": lo, "hi": hi, "n": n, "args": list(args)}


def sub(galts, lo=1, hi=1):
    return {"k": "sub", "lo": lo, "hi": hi, "g": {"galts": [list(a) for a in galts]}}


def rng(lo, hi, incl=True):
    return {"k": "range", "lo": lo, "hi": hi, "incl": incl}


def ctl(op, t, arg):
    return {"k": "ctl", "op": op, "t": t, "arg": arg}


def trule(name, t, op="=", params=()):
    return {"name": name, "kind": "type", "op": op, "params": list(params), "t": t}


def grule(name, e, op="=", params=()):
    return {"name": name, "kind": "group", "op": op, "params": list(params), "e": e}


# ------------------------------------------------------------------ rendering
def r_text(s):
    out = '"'
    for ch in s:
        if ch == '"':
            out += '\\"'
        elif ch == "\\":
            out += "\\\\"
        elif ch == "\n":
            out += "\\n"
        elif ch == "\r":
            out += "\\r"
        elif ch == "\t":
            out += "\\t"
        elif ord(ch) < 0x20 or ord(ch) == 0x7F:
            out += "\\u%04x" % ord(ch)
        else:
            out += ch
    return out + '"'


def r_float(x):
    r = repr(x)
    if "e" in r or "E" in r:
        # CDDL: int ["." fraction] ["e" exponent]
        m, e = r.lower().split("e")
        if "." not in m:
            m += ".0"
        return m + "e" + e
    if "." not in r:
        r += ".0"
    return r


def r_value(v):
    k = v["k"]
    if k == "int":
        return str(C.int_val(v))
    if k == "float":
        return r_float(C.float_val(v))
    if k == "text":
        return r_text(C.text_val(v))
    if k == "bytes":
        return "h'" + bytes(v["bs"]).hex() + "'"
    raise ValueError("no literal syntax for " + k)


LONG_OCC = False      # render ? * + as 0*1 0* 1* (C09 occurrence-spelling identity)


def r_occ(lo, hi):
    if (lo, hi) == (1, 1):
        return ""
    if LONG_OCC:
        return "%s*%s " % (lo, hi if hi != -1 else "")
    if (lo, hi) == (0, 1):
        return "? "
    if (lo, hi) == (0, -1):
        return "* "
    if (lo, hi) == (1, -1):
        return "+ "
    return "%s*%s " % (lo if lo else "", hi if hi != -1 else "")


def r_args(args):
    return "<" + ", ".join(r_t1(a) for a in args) + ">" if args else ""


def r_type(t):
    return " / ".join(r_t1(a) for a in t["alts"])


def r_t2(t):
    """operand of a range / control operator must be a type2"""
    if t["k"] in ("range", "ctl"):
        return "(" + r_t1(t) + ")"
    return r_t1(t)


def r_t1(t):
    k = t["k"]
    if k == "lit":
        return r_value(t["v"])
    if k == "ref":
        return t["n"] + r_args(t["args"])
    if k == "paren":
        return "(" + r_type(t["t"]) + ")"
    if k == "map":
        return "{" + r_group(t["g"]) + "}"
    if k == "arr":
        return "[" + r_group(t["g"]) + "]"
    if k == "unwrap":
        return "~" + t["n"] + r_args(t["args"])
    if k == "enumg":
        return "&(" + r_group(t["g"]) + ")"
    if k == "enumr":
        return "&" + t["n"] + r_args(t["args"])
    if k == "tag":
        if t["tagk"] == "any":
            return "#6(" + r_type(t["t"]) + ")"
        return "#6.%d(%s)" % (C.bytes_nat(t["tn"]), r_type(t["t"]))
    if k == "major":
        return "#%d" % t["mt"] + (".%d" % C.bytes_nat(t["num"]) if t["has"] else "")
    if k == "any":
        return "#"
    if k == "range":
        return r_t2(t["lo"]) + (".." if t["incl"] else "...") + r_t2(t["hi"])
    if k == "ctl":
        return r_t2(t["t"]) + " ." + t["op"] + " " + r_t2(t["arg"])
    raise ValueError(k)


def r_key(key):
    kk = key["kk"]
    if kk == "none":
        return ""
    if kk == "bare":
        return key["n"] + ": "
    if kk == "val":
        return r_value(key["v"]) + ": "
    if kk == "type":
        return r_t1(key["t"]) + (" ^ => " if key["cut"] else " => ")
    raise ValueError(kk)


def r_entry(e):
    k = e["k"]
    occ = r_occ(e["lo"], e["hi"])
    if k == "ent":
        return occ + r_key(e["key"]) + r_type(e["t"])
    if k == "name":
        return occ + e["n"] + r_args(e["args"])
    if k == "sub":
        return occ + "(" + r_group(e["g"]) + ")"
    raise ValueError(k)


def r_group(g):
    return " // ".join(", ".join(r_entry(e) for e in alt) for alt in g["galts"])


def r_rule(r):
    params = "<" + ", ".join(r["params"]) + ">" if r["params"] else ""
    if r["kind"] == "type":
        return "%s%s %s %s" % (r["name"], params, r["op"], r_type(r["t"]))
    body = r_entry(r["e"])
    if r["e"]["k"] != "sub":
        # the PEG parser only takes a group rule whose entry is an inline group; '(e)' denotes the same group
        body = "(" + body + ")"
    return "%s%s %s %s" % (r["name"], params, r["op"], body)


def render(rules):
    return "\n".join(r_rule(r) for r in rules) + "\n"


# ------------------------------------------------------------------ random schemas (core fragment of C01/C02)
class Gen:
    def __init__(self, rnd, fmt="json", max_rules=4, depth=3, profile="core"):
        self.rnd = rnd
        self.fmt = fmt
        self.depth = depth
        self.max_rules = max_rules
        self.profile = profile
        self.rules = []
        self.pending = []     # names of rules still to be defined: (name, kind)
        self.counter = 0
        self.generic_defs = []
        self.socket_defs = []

    # -- scalars
    def small_int(self):
        r = self.rnd
        return r.choice([0, 1, 2, 3, 5, 10, 255, 256, 65536, 2**32, -1, -2, -10]) if r.random() < 0.85 else r.choice(
            [2**31 - 1, 2**31, 2**53, 2**63 - 1, -2**31, -2**63] + ([2**63, 2**64 - 1] if self.fmt == "cbor" or r.random() < 0.5 else []))

    def text(self):
        return self.rnd.choice(["a", "b", "c", "ab", "", "é", "x y"])

    def scalar_t1(self):
        r = self.rnd
        x = r.random()
        pre = PRELUDE_CBOR if self.fmt == "cbor" else PRELUDE_JSON
        if x < 0.45:
            return ref(r.choice(pre))
        if x < 0.6:
            return lit(C.mk_int(self.small_int()))
        if x < 0.72:
            return lit(C.mk_text(self.text()))
        if x < 0.76:
            return lit(C.mk_float(r.choice([1.5, -0.25, 2.75, 0.5])))
        if x < 0.86:
            a, b = sorted([self.small_int(), self.small_int()])
            return rng(lit(C.mk_int(a)), lit(C.mk_int(b)), r.random() < 0.6)
        if x < 0.88:
            return rng(lit(C.mk_float(0.5)), lit(C.mk_float(r.choice([1.5, 2.75]))), r.random() < 0.6)
        if x < 0.93 and self.fmt == "cbor":
            return lit(C.mk_bytes(r.choice([b"", b"a", b"\x01\x02"])))
        return self.ctl_t1()

    def ctl_t1(self):
        r = self.rnd
        op = r.choice(["size", "size", "lt", "le", "gt", "ge", "eq", "ne"])
        if op == "size":
            tgt = r.choice(["tstr", "uint"] + (["bstr"] if self.fmt == "cbor" else []))
            sizes = [0, 1, 2, 3, 4] if tgt != "uint" else [0, 1, 2, 3, 4, 7, 8, 8, 9, 16]
            if tgt != "uint" and r.random() < 0.35:
                lo_ = r.choice([0, 1, 2, 3])
                return ctl("size", ref(tgt), rng(lit(C.mk_int(lo_)), lit(C.mk_int(lo_ + r.choice([0, 1, 2, 4]))), r.random() < 0.7))
            return ctl("size", ref(tgt), lit(C.mk_int(r.choice(sizes))))
        if op in ("lt", "le", "gt", "ge"):
            return ctl(op, ref(r.choice(["int", "uint", "nint"])), lit(C.mk_int(r.choice([-3, -1, 0, 1, 2, 10, 256]))))
        tgt = r.choice(["int", "tstr", "uint"])
        arg = lit(C.mk_text(self.text())) if tgt == "tstr" else lit(C.mk_int(r.choice([-1, 0, 1, 2, 10])))
        return ctl(op, ref(tgt), arg)

    # -- rules
    def fresh(self, kind):
        self.counter += 1
        n = ("t%d" if kind == "type" else "g%d") % self.counter
        self.pending.append((n, kind))
        return n

    def can_ref(self):
        return len(self.rules) + len(self.pending) < self.max_rules

    def ext_t1(self, d):
        """constructs of the shared feature set beyond the C01 core (profile 'shared')"""
        r = self.rnd
        x = r.random()
        if x < 0.2:
            return ctl(r.choice(["and", "within"]), r.choice([ref("int"), ref("uint"), rng(lit(C.mk_int(0)), lit(C.mk_int(10)))]),
                       r.choice([ref("uint"), rng(lit(C.mk_int(-5)), lit(C.mk_int(5))), ref("int")]))
        if x < 0.27:
            return {"k": "enumg", "g": {"galts": [[ent(T(lit(C.mk_int(i))), key=kbare(n)) for n, i in (("a", 1), ("b", 2), ("c", 3))][:r.choice([2, 3])]]}}
        if x < 0.35:
            # group-to-choice over members of different kinds: controls, ranges, float / text literals (the alternatives share one validator)
            def member():
                y = r.random()
                if y < 0.4:
                    return self.ctl_t1()
                if y < 0.6:
                    return lit(C.mk_float(r.choice([0.5, 0.25, -1.5, 2.0])))
                if y < 0.75:
                    return lit(C.mk_text(self.text()))
                return self.scalar_t1()
            ms = [ent(T(member()), key=kbare(n)) for n in ("a", "b", "c", "d")[:r.choice([2, 3, 4])]]
            return {"k": "enumg", "g": {"galts": [ms]}}
        if x < 0.55 and self.can_ref():
            # generic rule p<T> = [* T] / {k: T} / T / nil
            self.counter += 1
            n = "p%d" % self.counter
            body = r.choice([T(arr([ent(T(ref("T")), 0, -1)])), T(mp([ent(T(ref("T")), key=kbare("k"))])), T(ref("T"), ref("nil")),
                             T(arr([ent(T(ref("T"))), ent(T(ref("tstr")), 0, 1)]))])
            self.generic_defs.append(trule(n, body, params=["T"]))
            return ref(n, [self.scalar_t1() if r.random() < 0.7 else ref("tstr")])
        if x < 0.63 and self.can_ref():
            # generic GROUP rule instantiated twice (different arguments) in one array
            self.counter += 1
            n = "gg%d" % self.counter
            body = r.choice([sub([[ent(T(ref("T"))), ent(T(ref("T")))]]), sub([[ent(T(ref("T"))), ent(T(ref("tstr")), 0, 1)]]),
                             sub([[ent(T(ref("T")), 1, 2)]]), sub([[ent(T(ref("T")))], [ent(T(ref("nil")))]])])
            self.generic_defs.append(grule(n, body, params=["T"]))
            a1, a2 = r.choice([(ref("int"), ref("tstr")), (ref("tstr"), ref("int")), (ref("bool"), self.scalar_t1()), (self.scalar_t1(), ref("tstr"))])
            es = [name_ent(n, args=[a1]), name_ent(n, args=[a2], lo=r.choice([1, 1, 0]), hi=1)]
            if r.random() < 0.3:
                es.insert(1, ent(T(ref("nil")), 0, 1))
            return arr(es)
        if x < 0.67 and self.can_ref():
            # generic / plain GROUP rule used as a map member next to other members (before, after, between)
            self.counter += 1
            n = "gm%d" % self.counter
            generic = r.random() < 0.7
            inner = T(ref("T")) if generic else T(self.scalar_t1())
            body = r.choice([sub([[ent(inner, key=kbare("ga"))]]), sub([[ent(inner, key=kbare("ga")), ent(T(ref("tstr")), 0, 1, key=kbare("gb"))]]),
                             sub([[ent(inner, 0, 1, key=kbare("ga"))]])])
            self.generic_defs.append(grule(n, body, params=["T"] if generic else []))
            me = name_ent(n, args=[r.choice([ref("int"), ref("tstr"), self.scalar_t1()])] if generic else [], lo=r.choice([1, 1, 0]), hi=1)
            others = [ent(T(self.scalar_t1()), lo=r.choice([1, 1, 0]), hi=1, key=kbare(k)) for k in ("x", "y")[:r.choice([1, 2])]]
            es = others + [me]
            r.shuffle(es)
            return mp(es)
        if x < 0.7:
            # socket: $s with 1-2 plugs
            self.counter += 1
            n = "$s%d" % self.counter
            self.socket_defs.append(trule(n, T(self.scalar_t1()), op="/="))
            if r.random() < 0.5:
                self.socket_defs.append(trule(n, T(self.scalar_t1()), op="/="))
            return ref(n)
        if x < 0.85 and self.can_ref():
            # array rule + unwrap inside an array
            self.counter += 1
            n = "u%d" % self.counter
            self.generic_defs.append(trule(n, T(arr([ent(T(ref("int"))), ent(T(ref("tstr")), 0, 1)]))))
            return arr([ent(T({"k": "unwrap", "n": n, "args": []})), ent(T(ref("bool")), 0, -1)])
        if x < 0.95:
            return self.catplus_t1()
        return ctl("default", ref(r.choice(["int", "tstr"])), lit(C.mk_int(1)))

    def catplus_t1(self):
        """RFC 9165 .cat / .plus on single-valued operands (literals, aliases of literals, parenthesised literals)"""
        r = self.rnd

        def operand(v):
            y = r.random()
            if y < 0.25 and self.can_ref():
                self.counter += 1
                n = "c%d" % self.counter
                self.generic_defs.append(trule(n, T(lit(v))))
                return ref(n)
            if y < 0.35:
                return paren(T(lit(v)))
            return lit(v)
        if r.random() < 0.5:
            a = C.mk_text(r.choice(["", "a", "ab", "\u00e9", "x y"]))
            b = C.mk_text(r.choice(["", "b", "cd", "\u65e5", "\n"]))
            return ctl("cat", operand(a), operand(b))
        a = C.mk_int(r.choice([0, 1, 2, 5, 255, -1, -3, 1000]))
        b = C.mk_int(r.choice([0, 1, 3, 256, -1, -2, -7, 65536]))
        return ctl("plus", operand(a), operand(b))

    REGEXPS = [("[a-z]+", ["a", "abc", "", "A", "a1", "ab c"]), ("[0-9]{2,3}", ["12", "123", "1", "1234", "ab"]), ("a|bc", ["a", "bc", "ab", "abc", ""]),
               ("x.*", ["x", "xyz", "ax", "", "x\n"]), ("\\\\d+", ["7", "42", "", "d", "4a"]), ("(ab)*c?", ["", "ab", "ababc", "abab", "ac", "b"]),
               ("[^ ]+@[a-z]+", ["a@b", "@b", "a b@c", "a@", "\u00e9@z"])]

    def sharedx_t1(self):
        """shared constructs that have no clause in CddlSem (C04 relation only: the two validators must agree)"""
        r = self.rnd
        x = r.random()
        if x < 0.55:
            rx, _ = r.choice(self.REGEXPS)
            return ctl("regexp", ref(r.choice(["tstr", "text"])), lit(C.mk_text(rx)))
        if x < 0.8:
            a = r.choice([lit(C.mk_float(1.5)), lit(C.mk_int(2)), lit(C.mk_int(-1)), lit(C.mk_float(-0.5))])
            b = r.choice([lit(C.mk_float(0.5)), lit(C.mk_int(1)), lit(C.mk_int(-3)), lit(C.mk_float(2.25))])
            return ctl("plus", a, b)
        a = C.mk_text(r.choice(["", "a", "\u00e9"]))
        return ctl("cat", lit(a), paren(T(ctl("cat", lit(C.mk_text(r.choice(["b", ""]))), lit(C.mk_text(r.choice(["c", "d d"])))))))

    def cbor_t1(self, d):
        """CBOR-only constructs (profile 'cborx'): tagged types, major types, non-text map keys, big numbers"""
        r = self.rnd
        x = r.random()
        if x < 0.25:
            inner = T(self.scalar_t1()) if r.random() < 0.7 or d <= 0 else T(self.array(d - 1))
            if r.random() < 0.8:
                return {"k": "tag", "tagk": "lit", "tn": C.nat_bytes(r.choice([5, 100, 1000, 65536, 4294967296])), "t": inner}
            return {"k": "tag", "tagk": "any", "t": inner}
        if x < 0.45:
            m = r.choice([(0, None), (1, None), (2, None), (3, None), (4, None), (5, None), (7, None), (7, 20), (7, 21), (7, 22), (7, 25), (7, 26), (7, 27), (0, 5), (1, 3)])
            return {"k": "major", "mt": m[0], "has": m[1] is not None, "num": C.nat_bytes(m[1] or 0)}
        if x < 0.6:
            return ref(r.choice(["biguint", "bignint", "bigint", "integer", "unsigned"]))
        if x < 0.7:
            return ctl("size", ref("bstr"), lit(C.mk_int(r.choice([0, 1, 2, 3]))))
        # a map with non-text keys
        es = []
        for _ in range(r.choice([1, 2])):
            y = r.random()
            lo, hi = r.choice([(1, 1), (0, 1)])
            if y < 0.4:
                key = kval(C.mk_int(r.choice([1, 2, -1, 1000]))) if r.random() < 0.5 else ktype(lit(C.mk_int(r.choice([1, 2, -1, 256]))), cut=r.random() < 0.5)
            elif y < 0.6:
                key = ktype(lit(C.mk_bytes(r.choice([b"", b"a", b"\x01\x02"]))), cut=r.random() < 0.5)
            else:
                key = ktype(lit(C.mk_text(r.choice(["a", "b"]))), cut=r.random() < 0.5)
            es.append(ent(T(self.scalar_t1()), lo, hi, key))
        # distinct literal keys only
        seen, es2 = set(), []
        for e in es:
            ks = json.dumps(e["key"], sort_keys=True)
            kv = json.dumps(e["key"].get("v") or e["key"].get("t", {}).get("v"), sort_keys=True)
            if kv not in seen:
                seen.add(kv)
                es2.append(e)
        if r.random() < 0.4:
            es2.append(ent(T(self.scalar_t1()), 0, -1, ktype(ref(r.choice(["int", "uint", "bstr", "tstr"])), cut=False)))
        return mp(es2)

    def t1(self, d):
        r = self.rnd
        x = r.random()
        if self.profile == "cborx" and self.fmt == "cbor" and r.random() < 0.3:
            return self.cbor_t1(d)
        if self.profile == "sharedx" and r.random() < 0.1:
            return self.sharedx_t1()
        if self.profile in ("shared", "sharedx") and r.random() < 0.18:
            return self.ext_t1(d)
        if d <= 0 or x < 0.35:
            return self.scalar_t1()
        if x < 0.6:
            return self.array(d)
        if x < 0.82:
            return self.map(d)
        if x < 0.9:
            return paren(self.type(d - 1))
        if self.can_ref():
            return ref(self.fresh("type"))
        existing = [x["name"] for x in self.rules[1:] if x["kind"] == "type"]
        if existing and r.random() < 0.5:
            return ref(r.choice(existing))
        return self.scalar_t1()

    def type(self, d):
        n = self.rnd.choice([1, 1, 1, 2, 2, 3])
        return T(*[self.t1(d) for _ in range(n)])

    def occ(self):
        return self.rnd.choice([(1, 1), (1, 1), (1, 1), (0, 1), (0, 1), (0, -1), (1, -1), (2, -1), (0, 2), (1, 2), (2, 3), (2, 2)])

    def array(self, d):
        r = self.rnd
        galts = []
        for _ in range(r.choice([1, 1, 1, 2])):
            es = []
            for _ in range(r.choice([0, 1, 1, 2, 2, 3])):
                es.append(self.array_entry(d))
            galts.append(es)
        if len(galts) > 1:
            # an empty alternative of a group choice is outside the generated fragment (known finding C01-empty-group-alternative)
            galts = [g if g else [self.array_entry(d)] for g in galts]
        return arr(*galts)

    def array_entry(self, d):
        r = self.rnd
        lo, hi = self.occ()
        x = r.random()
        if x < 0.7 or d <= 1:
            key = None
            if r.random() < 0.15:
                key = kbare(r.choice(["a", "b", "k"]))
            return ent(self.type(d - 1), lo, hi, key)
        if x < 0.88:
            galts = []
            for _ in range(r.choice([1, 1, 2])):
                galts.append([self.array_entry(d - 1) for _ in range(r.choice([1, 2, 2]))])
            return sub(galts, lo, hi)
        if self.can_ref():
            return name_ent(self.fresh("group"), lo, hi)
        return ent(self.type(d - 1), lo, hi)

    def map(self, d):
        r = self.rnd
        galts = []
        for _ in range(r.choice([1, 1, 1, 1, 2])):
            es = []
            keys = ["a", "b", "c", "d"]
            r.shuffle(keys)
            n = r.choice([0, 1, 2, 2, 3])
            for i in range(n):
                es.append(self.map_entry(d, keys[i]))
            if r.random() < 0.3:
                # wildcard table last (the documented idiom)
                vt = self.type(d - 1)
                es.append(ent(vt, 0, -1, ktype(ref("tstr"), cut=False)))
            if r.random() < 0.12 and self.can_ref():
                # a group rule with one keyed member, referenced by name with or without '?', at any position among the members
                self.counter += 1
                gname = "mg%d" % self.counter
                self.generic_defs.append(grule(gname, sub([[ent(self.type(0), key=kbare(r.choice(["e", "f"])))]])))
                es.insert(r.randrange(len(es) + 1), name_ent(gname, r.choice([0, 1]), 1))
            elif r.random() < 0.12:
                # a single type-keyed member, required or optional ('tstr => T', '? tstr => T')
                es.append(ent(self.type(d - 1), r.choice([0, 1]), 1, ktype(ref("tstr"), cut=False)))
            galts.append(es)
        if len(galts) > 1:
            galts = [g if g else [self.map_entry(d, "a")] for g in galts]
        return mp(*galts)

    def map_entry(self, d, k):
        r = self.rnd
        lo, hi = r.choice([(1, 1), (1, 1), (0, 1), (0, 1)])
        x = r.random()
        if x < 0.45:
            key = kbare(k)
        elif x < 0.7:
            key = kval(C.mk_text(k))
        elif x < 0.85:
            key = ktype(lit(C.mk_text(k)), cut=r.random() < 0.5)
        else:
            key = kval(C.mk_int(r.choice([1, 2])) if self.fmt == "cbor" else C.mk_text(k))
        return ent(self.type(d - 1), lo, hi, key)

    def schema(self):
        for _ in range(50):
            self.rules, self.pending, self.counter = [], [], 0
            self.generic_defs, self.socket_defs = [], []
            rules = self._schema() + self.generic_defs + self.socket_defs
            if in_fragment(rules):
                return rules
        return [trule("root", T(ref("int")))]

    def _schema(self):
        self.rules = [trule("root", self.type(self.depth))]
        while self.pending:
            n, kind = self.pending.pop(0)
            if kind == "type":
                self.rules.append(trule(n, self.type(max(1, self.depth - 1))))
            else:
                galts = [[self.array_entry(1) for _ in range(self.rnd.choice([1, 2]))]]
                self.rules.append(grule(n, sub(galts)))
        return self.rules


# ------------------------------------------------------------------ heuristic instance sampler
class Inst:
    """Tries to produce a value matching a type (not an oracle: may be wrong in either direction)."""

    def __init__(self, rnd, rules, fmt):
        self.rnd = rnd
        self.rules = rules
        self.fmt = fmt
        self.fuel = 60

    def rule(self, n):
        for r in self.rules:
            if r["name"] == n:
                return r
        return None

    def of_type(self, t):
        return self.of_t1(self.rnd.choice(t["alts"]))

    def prim(self, n):
        r = self.rnd
        ints = [0, 1, 2, 3, 5, 10, 255, 256, 65536, 2**31, 2**32, -1, -2, -10, -2**31]
        if n in ("int",):
            return C.mk_int(r.choice(ints))
        if n == "uint":
            return C.mk_int(abs(r.choice(ints)))
        if n == "nint":
            return C.mk_int(-1 - abs(r.choice(ints)))
        if n in ("tstr", "text"):
            return C.mk_text(r.choice(["a", "b", "", "ab", "é", "x y", "abc"]))
        if n in ("bstr", "bytes"):
            return C.mk_bytes(r.choice([b"", b"a", b"\x01\x02", b"abc"]))
        if n in ("biguint", "bignint", "bigint", "integer", "unsigned"):
            big = C.mk_tag(2 if n in ("biguint", "unsigned") or (n in ("bigint", "integer") and r.random() < 0.5) else 3,
                           C.mk_bytes(r.choice([b"\x01", b"\x01\x00\x00\x00\x00\x00\x00\x00\x00", b"", b"\x00\x01"])))
            if n in ("integer", "unsigned") and r.random() < 0.5:
                return C.mk_int(abs(r.choice(ints)) if n == "unsigned" else r.choice(ints))
            return big
        if n == "bool":
            return C.mk_bool(r.random() < 0.5)
        if n == "true":
            return C.mk_bool(True)
        if n == "false":
            return C.mk_bool(False)
        if n in ("nil", "null"):
            return dict(C.NULL)
        if n in ("float", "float64", "float32", "float16"):
            return C.mk_float(r.choice([1.5, -0.25, 2.75, 0.5, 100.5]))
        if n == "number":
            return C.mk_float(1.5) if r.random() < 0.4 else C.mk_int(r.choice(ints))
        return self.junk()

    def junk(self):
        r = self.rnd
        return r.choice([C.mk_int(r.choice([0, 1, -1, 7, 300])), C.mk_text(r.choice(["a", "zz", ""])), C.mk_bool(True), dict(C.NULL),
                         C.mk_float(1.5), C.mk_arr([]), C.mk_arr([C.mk_int(1)]), C.mk_map([]), C.mk_map([(C.mk_text("a"), C.mk_int(1))])])

    def of_t1(self, t):
        self.fuel -= 1
        if self.fuel < 0:
            return self.junk()
        k = t["k"]
        r = self.rnd
        if k == "lit":
            return t["v"]
        if k == "ref":
            ru = self.rule(t["n"])
            if ru is None:
                return self.prim(t["n"])
            if ru["kind"] == "type":
                import refactor
                alts = refactor.inst_type(self.rules, t["n"], t["args"])["alts"]
                return self.of_t1(r.choice(alts))
            return self.junk()
        if k == "paren":
            return self.of_type(t["t"])
        if k == "arr":
            return C.mk_arr(self.of_group_seq(t["g"]))
        if k == "map":
            return C.mk_map(self.of_group_map(t["g"]))
        if k == "range":
            lo, hi = t["lo"], t["hi"]
            if lo["k"] == "lit" and hi["k"] == "lit":
                if lo["v"]["k"] == "int":
                    a, b = C.int_val(lo["v"]), C.int_val(hi["v"])
                    return C.mk_int(clamp(r.choice([a, b, a + 1, b - 1, (a + b) // 2, a - 1, b + 1]), self.fmt))
                a, b = C.float_val(lo["v"]), C.float_val(hi["v"])
                return C.mk_float(r.choice([a, b, (a + b) / 2, a - 0.25, b + 0.25]))
            return self.junk()
        if k == "ctl":
            op = t["op"]
            a = t["arg"]["v"] if t["arg"]["k"] == "lit" else None
            if op == "size" and t["arg"]["k"] == "range" and t["arg"]["lo"]["k"] == "lit" and t["arg"]["hi"]["k"] == "lit":
                lo_, hi_ = C.int_val(t["arg"]["lo"]["v"]), C.int_val(t["arg"]["hi"]["v"])
                n = max(0, r.choice([lo_, hi_, hi_ + 1, lo_ - 1, (lo_ + hi_) // 2]))
                if t["t"].get("n") in ("bstr", "bytes"):
                    return C.mk_bytes(b"x" * n)
                # n BYTES of UTF-8, as many two- / three-byte characters as fit (characters < bytes)
                return C.mk_text(r.choice(["a" * n, "\u00e9" * (n // 2) + "a" * (n % 2), "\u65e5" * (n // 3) + "a" * (n % 3)]))
            if op == "size" and a is not None and a["k"] == "int":
                n = C.int_val(a)
                tn = t["t"].get("n")
                if tn in ("tstr", "text"):
                    return C.mk_text(r.choice(["a" * n, "a" * (n + 1), "é" * (n // 2) + "a" * (n % 2), "a" * max(0, n - 1)]))
                if tn in ("bstr", "bytes"):
                    return C.mk_bytes(b"x" * r.choice([n, n + 1, max(0, n - 1)]))
                return C.mk_int(r.choice([0, 1, 255, 256, 65535, 65536, 2**24, 2**32 - 1, 2**32, 256 ** n - 1 if n < 9 else 2**64 - 1, 256 ** n if n < 8 else 2**64 - 1, 2**64 - 1, 2**64 - 2, 2**56]))
            if op == "regexp" and a is not None and a["k"] == "text":
                for rx, insts in Gen.REGEXPS:
                    if rx == C.text_val(a):
                        return C.mk_text(r.choice(insts))
                return C.mk_text("a")
            if op == "plus" and t["t"]["k"] == "lit" and t["arg"]["k"] == "lit" and "float" in (t["t"]["v"]["k"], t["arg"]["v"]["k"]):
                num = lambda v: C.int_val(v) if v["k"] == "int" else C.float_val(v)
                x, y = num(t["t"]["v"]), num(t["arg"]["v"])
                c = [x + y, x, y, int(x) + int(y), int(x + y), x + int(y)]
                # only non-integral documents: JSON cannot tell 2 from 2.0, so an integral sum is accepted as JSON "2" and (rightly)
                # rejected as CBOR integer 2 - not a disagreement the property speaks about (false alarm met with VERIF_SEED=2)
                c = [z for z in c if z != int(z)]
                if not c:
                    return C.mk_text("a")
                return C.mk_float(float(r.choice(c)))
            if op == "cat" and t["arg"]["k"] == "paren":
                return C.mk_text(r.choice(["abc", "ac", "bc", "ad d", "\u00e9bc", "\u00e9c", "bd d", "a", "c"]))
            if op in ("cat", "plus"):
                def single(x, fuel=4):
                    while fuel > 0 and x is not None and x["k"] != "lit":
                        fuel -= 1
                        if x["k"] == "paren" and len(x["t"]["alts"]) == 1:
                            x = x["t"]["alts"][0]
                        elif x["k"] == "ref" and self.rule(x["n"]) is not None and len(self.rule(x["n"])["t"]["alts"]) == 1:
                            x = self.rule(x["n"])["t"]["alts"][0]
                        else:
                            x = None
                    return x["v"] if x is not None and x["k"] == "lit" else None
                la, lb = single(t["t"]), single(t["arg"])
                if la is None or lb is None:
                    return self.junk()
                if op == "cat" and la["k"] == "text" and lb["k"] == "text":
                    sa, sb = C.text_val(la), C.text_val(lb)
                    return C.mk_text(r.choice([sa + sb, sa + sb, sa + sb, sa, sb, sb + sa, sa + sb + "x", sa + " " + sb]))
                if op == "plus" and la["k"] == "int" and lb["k"] == "int":
                    x, y = C.int_val(la), C.int_val(lb)
                    return C.mk_int(clamp(r.choice([x + y, x + y, x + y, x, y, x - y, x + y + 1, x + y - 1, abs(x + y), -(x + y)]), self.fmt))
                return self.junk()
            if op in ("lt", "le", "gt", "ge", "eq", "ne") and a is not None:
                if a["k"] == "int":
                    n = C.int_val(a)
                    return C.mk_int(clamp(r.choice([n - 1, n, n + 1]), self.fmt))
                if a["k"] == "text":
                    return r.choice([a, C.mk_text(C.text_val(a) + "x")])
            return self.of_t1(t["t"])
        if k == "any":
            return self.junk()
        if k == "tag":
            n = C.bytes_nat(t["tn"]) if t["tagk"] == "lit" else r.choice([5, 7, 100])
            if r.random() < 0.15:
                n = r.choice([n + 1, 6, 2])
            return C.mk_tag(n, self.of_type(t["t"]))
        if k == "major":
            mt, has, num = t["mt"], t["has"], C.bytes_nat(t["num"])
            if mt == 0:
                return C.mk_int(num if has else r.choice([0, 1, 23, 24, 255, 256, 2**32, 2**64 - 1]))
            if mt == 1:
                return C.mk_int(-1 - num if has else r.choice([-1, -24, -25, -256, -257, -2**32, -2**64]))
            if mt == 2:
                return C.mk_bytes(r.choice([b"", b"a", b"\x01\x02"]))
            if mt == 3:
                return C.mk_text(r.choice(["", "a", "ab"]))
            if mt == 4:
                return C.mk_arr([self.junk() for _ in range(r.choice([0, 1, 2]))])
            if mt == 5:
                return C.mk_map([(C.mk_text("a"), self.junk())] if r.random() < 0.5 else [])
            if mt == 7:
                if not has:
                    return r.choice([C.mk_bool(True), dict(C.NULL), C.mk_float(1.5), {"k": "simple", "sn": 32}])
                return {20: C.mk_bool(False), 21: C.mk_bool(True), 22: dict(C.NULL), 25: C.mk_float(1.5), 26: C.mk_float(0.1), 27: C.mk_float(1.1)}.get(num, dict(C.NULL))
        return self.junk()

    def count(self, lo, hi):
        r = self.rnd
        top = hi if hi != -1 else lo + 2
        cands = [lo, lo, top, (lo + top) // 2]
        if r.random() < 0.12:
            cands += [max(0, lo - 1), top + 1]
        return r.choice(cands)

    def of_entry_seq(self, e):
        out = []
        n = self.count(e["lo"], e["hi"])
        for _ in range(n):
            if e["k"] == "ent":
                out.append(self.of_type(e["t"]))
            elif e["k"] == "sub":
                out += self.of_group_seq(e["g"])
            elif e["k"] == "name":
                ru = self.rule(e["n"])
                if ru is not None and ru["kind"] == "group":
                    import refactor
                    out += self.of_group_seq(refactor.inst_group(self.rules, e["n"], e["args"]))
                else:
                    out.append(self.of_t1(ref(e["n"])))
        return out

    def of_group_seq(self, g):
        alt = self.rnd.choice(g["galts"])
        out = []
        for e in alt:
            out += self.of_entry_seq(e)
        return out

    def key_value(self, key):
        kk = key["kk"]
        if kk == "bare":
            return C.mk_text(key["n"])
        if kk == "val":
            return key["v"]
        if kk == "type":
            return self.of_t1(key["t"])
        return C.mk_text("?")

    def of_group_map(self, g):
        alt = self.rnd.choice(g["galts"])
        pairs = []
        seen = set()
        for e in alt:
            n = self.count(e["lo"], e["hi"])
            for _ in range(min(n, 3)):
                if e["k"] == "ent":
                    kv = self.key_value(e["key"])
                    if e["key"]["kk"] == "type" and e["key"]["t"].get("n") in ("tstr", "text"):
                        kv = C.mk_text(self.rnd.choice(["w", "x", "y", "z", "a"]))
                    elif e["key"]["kk"] == "type" and e["key"]["t"].get("n") in ("int", "uint"):
                        kv = C.mk_int(self.rnd.choice([0, 1, 2, 7, 1000, 256]))
                    elif e["key"]["kk"] == "type" and e["key"]["t"].get("n") in ("bstr", "bytes"):
                        kv = C.mk_bytes(self.rnd.choice([b"", b"k", b"\x01\x02"]))
                    ks = json.dumps(kv, sort_keys=True)
                    if ks in seen:
                        continue
                    seen.add(ks)
                    pairs.append((kv, self.of_type(e["t"])))
                elif e["k"] in ("sub", "name"):
                    if e["k"] == "name":
                        ru = self.rule(e["n"])
                        if ru is None or ru["kind"] != "group":
                            continue
                        import refactor
                        gg = refactor.inst_group(self.rules, e["n"], e["args"])
                    else:
                        gg = e["g"]
                    for kv, vv in self.of_group_map(gg):
                        ks = json.dumps(kv, sort_keys=True)
                        if ks not in seen:
                            seen.add(ks)
                            pairs.append((kv, vv))
        if self.rnd.random() < 0.5:
            self.rnd.shuffle(pairs)
        return pairs


def mutate(rnd, v, fmt, depth=0):
    """single-step near-miss mutation of a value"""
    k = v["k"]
    x = rnd.random()
    junk = [C.mk_int(0), C.mk_int(-1), C.mk_int(7), C.mk_text("a"), C.mk_text("q"), C.mk_bool(False), dict(C.NULL), C.mk_float(1.5),
            C.mk_arr([]), C.mk_map([])]
    if k == "arr" and v["items"] and x < 0.75:
        items = list(v["items"])
        y = rnd.random()
        i = rnd.randrange(len(items))
        if y < 0.3:
            del items[i]
        elif y < 0.55:
            items.insert(i, rnd.choice(junk + [items[i]]))
        elif y < 0.65 and len(items) > 1:
            j = rnd.randrange(len(items))
            items[i], items[j] = items[j], items[i]
        else:
            items[i] = mutate(rnd, items[i], fmt, depth + 1)
        return C.mk_arr(items)
    if k == "map" and v["pairs"] and x < 0.75:
        pairs = [(p["key"], p["val"]) for p in v["pairs"]]
        y = rnd.random()
        i = rnd.randrange(len(pairs))
        if y < 0.3:
            del pairs[i]
        elif y < 0.5:
            nk = C.mk_text(rnd.choice(["zz", "e", "f"]))
            if all(json.dumps(kk, sort_keys=True) != json.dumps(nk, sort_keys=True) for kk, _ in pairs):
                pairs.append((nk, rnd.choice(junk)))
        elif y < 0.6:
            rnd.shuffle(pairs)
        else:
            pairs[i] = (pairs[i][0], mutate(rnd, pairs[i][1], fmt, depth + 1))
        return C.mk_map(pairs)
    if k == "int" and x < 0.6:
        i = C.int_val(v)
        j = i + rnd.choice([-1, 1, -i * 2 - 1, 256])
        j = max(-(1 << 63), min(j, (1 << 64) - 1))
        return C.mk_int(j)
    if k == "tag" and x < 0.7:
        if rnd.random() < 0.4:
            return C.mk_tag(C.bytes_nat(v["tn"]) + rnd.choice([1, -1 if C.bytes_nat(v["tn"]) > 0 else 1, 1000]), v["c"])
        if rnd.random() < 0.5:
            return v["c"]
        return C.mk_tag(C.bytes_nat(v["tn"]), mutate(rnd, v["c"], fmt, depth + 1))
    if k == "bytes" and x < 0.6:
        b = bytes(v["bs"])
        return rnd.choice([C.mk_bytes(b + b"x"), C.mk_bytes(b[:-1]), C.mk_text(b.decode("latin-1"))])
    if k == "text" and x < 0.6:
        s = C.text_val(v)
        return C.mk_text(rnd.choice([s + "x", s[:-1], s.upper(), "é" + s]))
    if k == "arr" and x < 0.9:
        return C.mk_arr(v["items"] + [rnd.choice(junk)])
    if k == "map" and x < 0.9:
        return C.mk_map([(p["key"], p["val"]) for p in v["pairs"]] + [(C.mk_text("zz"), rnd.choice(junk))])
    return rnd.choice(junk)


# ------------------------------------------------------------------ fragment predicate (generator and shrinker stay inside it)
def starts_with_paren(t1):
    k = t1["k"]
    if k == "paren":
        return True
    if k == "range":
        return t1["lo"]["k"] in ("range", "ctl") or starts_with_paren(t1["lo"])
    if k == "ctl":
        return t1["t"]["k"] in ("range", "ctl") or starts_with_paren(t1["t"])
    return False


def in_fragment(rules):
    """constructs deliberately outside the generated fragment (each is a listed known finding or documented exclusion)"""
    ok = [True]

    def walk(o):
        if isinstance(o, dict):
            if "galts" in o:
                if len(o["galts"]) > 1 and any(len(a) == 0 for a in o["galts"]):
                    ok[0] = False      # empty alternative of a group choice
            if o.get("k") == "ent" and o["key"]["kk"] == "none" and o["t"]["alts"] and starts_with_paren(o["t"]["alts"][0]):
                ok[0] = False          # '(type) ...' as a group entry: the PEG parser commits to an inline group (C03 finding)
            for v in o.values():
                walk(v)
        elif isinstance(o, list):
            for v in o:
                walk(v)
    walk(rules)
    # 'g = (bool)' is a TYPE rule for the parser (a parenthesised type); as the base of '//=' increments the text would mix a type
    # rule with group increments: a group name with several definitions must not have such a body (rendering ambiguity, not a finding)
    names = {}
    for r in rules:
        if isinstance(r, dict) and r.get("kind") == "group" and isinstance(r.get("e"), dict) and "k" in r["e"]:
            names.setdefault(r["name"], []).append(r)
    for rs in names.values():
        if len(rs) > 1:
            for r in rs:
                e = r["e"]
                alts = e["g"]["galts"] if e["k"] == "sub" else [[e]]
                if e.get("lo", 1) == 1 and e.get("hi", 1) == 1 and len(alts) == 1 and len(alts[0]) == 1:
                    x = alts[0][0]
                    if x["k"] in ("ent", "name") and x.get("lo") == 1 and x.get("hi") == 1 and (x["k"] == "name" or x["key"]["kk"] == "none"):
                        ok[0] = False
    return ok[0]
