"""Delta-debugging of (schema, value) cases: one-step reductions, batch-evaluated by the real
code and by TLC, keeping a reduction when the same kind of disagreement persists."""
import copy
import json

import cborlib as C
import cddlgen as G


def _t1_variants(t):
    """yield simpler replacements for a Type1 node (lists of Type1 = replacement alternatives)"""
    k = t["k"]
    if k == "paren":
        yield list(t["t"]["alts"])
        for i, alts in enumerate(_type_variants(t["t"])):
            yield [dict(t, t={"alts": alts})]
    elif k in ("arr", "map", "enumg"):
        g = t["g"]
        for ng in _group_variants(g):
            yield [dict(t, g=ng)]
    elif k == "ctl":
        yield [t["t"]]
        for v in _t1_variants(t["t"]):
            if len(v) == 1:
                yield [dict(t, t=v[0])]
    elif k == "range":
        pass
    elif k == "tag":
        for alts in _type_variants(t["t"]):
            yield [dict(t, t={"alts": alts})]
    elif k == "ref":
        if t["args"]:
            for i in range(len(t["args"])):
                for v in _t1_variants(t["args"][i]):
                    if len(v) == 1:
                        a = list(t["args"])
                        a[i] = v[0]
                        yield [dict(t, args=a)]


def _type_variants(ty):
    """yield new alts lists"""
    alts = ty["alts"]
    if len(alts) > 1:
        for i in range(len(alts)):
            yield alts[:i] + alts[i + 1:]
    for i, a in enumerate(alts):
        for rep in _t1_variants(a):
            yield alts[:i] + rep + alts[i + 1:]


def _entry_variants(e):
    if (e["lo"], e["hi"]) != (1, 1):
        yield dict(e, lo=1, hi=1)
        if e["hi"] == -1 and e["lo"] > 0:
            yield dict(e, lo=0)
        if e["lo"] > 1:
            yield dict(e, lo=e["lo"] - 1)
        if e["hi"] > 1:
            yield dict(e, hi=e["hi"] - 1)
    if e["k"] == "ent":
        for alts in _type_variants(e["t"]):
            yield dict(e, t={"alts": alts})
        key = e["key"]
        if key["kk"] == "type":
            if key["cut"]:
                yield dict(e, key=dict(key, cut=False))
            for v in _t1_variants(key["t"]):
                if len(v) == 1:
                    yield dict(e, key=dict(key, t=v[0]))
    elif e["k"] == "sub":
        for ng in _group_variants(e["g"]):
            yield dict(e, g=ng)
        if len(e["g"]["galts"]) == 1 and len(e["g"]["galts"][0]) == 1 and (e["lo"], e["hi"]) == (1, 1):
            yield e["g"]["galts"][0][0]


def _group_variants(g):
    galts = g["galts"]
    if len(galts) > 1:
        for i in range(len(galts)):
            yield {"galts": galts[:i] + galts[i + 1:]}
    for i, alt in enumerate(galts):
        for j in range(len(alt)):
            yield {"galts": galts[:i] + [alt[:j] + alt[j + 1:]] + galts[i + 1:]}
        for j, e in enumerate(alt):
            for ne in _entry_variants(e):
                yield {"galts": galts[:i] + [alt[:j] + [ne] + alt[j + 1:]] + galts[i + 1:]}


def _refs_in(obj, acc):
    if isinstance(obj, dict):
        if obj.get("k") in ("ref", "unwrap", "enumr", "name"):
            acc.add(obj["n"])
        for v in obj.values():
            _refs_in(v, acc)
    elif isinstance(obj, list):
        for v in obj:
            _refs_in(v, acc)


def _replace_ref(obj, name, alts):
    """inline: replace ref(name) nodes (no args) by paren(alts) / single alt"""
    if isinstance(obj, dict):
        if obj.get("k") == "ref" and obj["n"] == name and not obj["args"]:
            return alts[0] if len(alts) == 1 else {"k": "paren", "t": {"alts": alts}}
        return {k: _replace_ref(v, name, alts) for k, v in obj.items()}
    if isinstance(obj, list):
        return [_replace_ref(v, name, alts) for v in obj]
    return obj


def rules_variants(rules):
    # drop unreferenced non-root rules
    refs = set()
    _refs_in(rules, refs)
    for i in range(1, len(rules)):
        if rules[i]["name"] not in refs or sum(1 for r in rules if r["name"] == rules[i]["name"]) > 1:
            yield rules[:i] + rules[i + 1:]
    # inline non-generic single-definition type rules
    for i in range(1, len(rules)):
        r = rules[i]
        if r["kind"] == "type" and not r["params"] and sum(1 for x in rules if x["name"] == r["name"]) == 1:
            own = set()
            _refs_in(r, own)
            if r["name"] not in own:
                rest = rules[:i] + rules[i + 1:]
                yield _replace_ref(rest, r["name"], r["t"]["alts"])
    for i, r in enumerate(rules):
        if r["kind"] == "type":
            for alts in _type_variants(r["t"]):
                if alts:
                    yield rules[:i] + [dict(r, t={"alts": alts})] + rules[i + 1:]
        else:
            for ne in _entry_variants(r["e"]):
                yield rules[:i] + [dict(r, e=ne)] + rules[i + 1:]


def value_variants(v):
    k = v["k"]
    if k == "arr":
        items = v["items"]
        for i in range(len(items)):
            yield C.mk_arr(items[:i] + items[i + 1:])
        for i, it in enumerate(items):
            for nv in value_variants(it):
                yield C.mk_arr(items[:i] + [nv] + items[i + 1:])
    elif k == "map":
        pairs = v["pairs"]
        for i in range(len(pairs)):
            yield {"k": "map", "pairs": pairs[:i] + pairs[i + 1:]}
        for i, p in enumerate(pairs):
            for nv in value_variants(p["val"]):
                yield {"k": "map", "pairs": pairs[:i] + [{"key": p["key"], "val": nv}] + pairs[i + 1:]}
    elif k == "tag":
        for nv in value_variants(v["c"]):
            yield dict(v, c=nv)
    elif k == "int":
        i = C.int_val(v)
        for j in (0, 1, -1):
            if abs(j) < abs(i) or (i != j and abs(i) > 1):
                yield C.mk_int(j)
    elif k == "text":
        if len(v["cp"]) > 1:
            yield {"k": "text", "cp": v["cp"][:1]}
        if v["cp"] and v["cp"] != [97]:
            yield {"k": "text", "cp": [97]}


def size(obj):
    return len(json.dumps(obj))


def minimise(case, still_bad, max_rounds=25, max_batch=400):
    """still_bad(list of cases) -> list of bool. Greedy: take the smallest surviving variant per round."""
    cur = copy.deepcopy(case)
    for _ in range(max_rounds):
        cands = []
        for nr in rules_variants(cur["rules"]):
            if not G.in_fragment(nr):
                continue
            c = dict(cur, rules=nr)
            cands.append(c)
        for nv in value_variants(cur["val"]):
            cands.append(dict(cur, val=nv))
        seen = set()
        uniq = []
        for c in cands:
            s = json.dumps([c["rules"], c["val"]], sort_keys=True)
            if s not in seen and size(c) <= size(cur):
                seen.add(s)
                uniq.append(c)
        uniq.sort(key=size)
        uniq = uniq[:max_batch]
        if not uniq:
            break
        flags = still_bad(uniq)
        nxt = None
        for c, f in zip(uniq, flags):
            if f:
                nxt = c
                break
        if nxt is None:
            break
        cur = nxt
    return cur
