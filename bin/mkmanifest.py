#!/usr/bin/env python3
"""Regenerates MANIFEST.json from the table below (keeps it valid at all times)."""
import json, os, subprocess
V = os.path.dirname(os.path.dirname(os.path.abspath(__file__)))
ALL = ["C%02d" % i for i in range(1, 21)]
CLAIMED = {
 "C01": dict(text="spec/CddlSem.tla is an executable RFC 8610 matching semantics (arrays PEG, maps declarative with an explicit envelope where the RFC leaves the reading open). TLC enumerates the scopes of MC_Sem (arrays, maps, scalars/ranges/controls, rule graphs) with the expected verdict of every (schema, JSON value) state, each is replayed into validate_json_from_str; randomised deeper schemas/instances/mutants are recorded from the real code and judged by Trace_Sem.",
             note="bounded scopes + sampling; RFC transcribed from memory; renderer and projection trusted; named deviations (known_findings.json) are modelled as flags of the specification", ref="6 C01",
             tech="TLA+ oracle evaluated by TLC: exhaustive small-scope replay + trace validation of recorded validator calls"),
 "C02": dict(text="as C01 for validate_cbor_from_slice over the CBOR data model (bytes, big integers, non-text keys)", note="as C01", ref="6 C02",
             tech="TLA+ oracle evaluated by TLC: exhaustive small-scope replay + trace validation of recorded validator calls"),
 "C11": dict(text="spec/Cbor.tla is an executable RFC 8949 decoder; TLC enumerates every byte string up to the bound as a state with its expected result, each is replayed into decode_cbor; recorded executions on structured/mutated encodings are validated by Trace_Cbor",
             note="exhaustive to 2 bytes (quick) / 3 bytes over a 49-byte alphabet (thorough), sampled beyond; RFC text transcribed from memory; projection glue trusted", ref="6 C11",
             tech="TLA+ oracle evaluated by TLC + exhaustive replay + trace validation"),
}
EXTRA = {}
p = os.path.join(V, "lib", "manifest_extra.json")
if os.path.exists(p):
    EXTRA = json.load(open(p))
CLAIMED.update(EXTRA.get("claimed", {}))
NA = EXTRA.get("not_applicable", {})
checks = []
for pid in ALL:
    if pid in CLAIMED and os.path.exists(os.path.join(V, "lib", "checks", pid.lower() + ".py")):
        c = CLAIMED[pid]
        checks.append({"property_id": pid, "quick_cmd": "./bin/check %s --tier quick" % pid, "thorough_cmd": "./bin/check %s --tier thorough" % pid,
                       "evidence_file": "evidence/%s.json" % pid, "replay_cmd_template": "./bin/check %s --replay {path}" % pid, "engine": "tlc",
                       "level_claimed": {"category": c.get("cat", "model_checking"), "text": c["text"], "design_ref": "DESIGN.md section " + c["ref"]},
                       "level_note": c["note"], "technique": c["tech"]})
claimed_ids = [c["property_id"] for c in checks]
na = [{"property_id": pid, "reason": NA.get(pid, "check not built yet in this round (see DESIGN.md section 9 build order); nothing is claimed for it")} for pid in ALL if pid not in claimed_ids]
commits = subprocess.run(["git", "-C", "/repo", "log", "--format=%h %s", "--grep=^hook:"], capture_output=True, text=True).stdout.strip().splitlines()
m = {"version": 1, "setup_cmd": "./bin/setup.sh",
     "hooks": {"guard": "cddl_verif", "enable": "harness/.cargo/config.toml passes --cfg cddl_verif (with --check-cfg) to the executor build, which compiles /repo as a path dependency: cd /verif/harness && cargo build --release --offline",
               "baseline_off_cmd": "cd /repo && cargo test --workspace --no-fail-fast --offline", "source_commits": commits, "add_only": True},
     "engines": [{"name": "tlc", "path": "spec/", "serves_properties": claimed_ids, "kind_free_text": "explicit TLA+ specification (spec/*.tla): oracle modules (CddlSem, Cbor, ...), model configurations MC_* that enumerate bounded scopes with expected results, trace specifications Trace_* that validate recorded executions of the real code"},
                 {"name": "conform", "path": "harness/", "serves_properties": claimed_ids, "kind_free_text": "Rust executor linked against /repo: calls the real entry points, projects results into the abstract encoding; contains no reference semantics"},
                 {"name": "driver", "path": "bin/check, lib/", "serves_properties": claimed_ids, "kind_free_text": "python driver: generators/renderers (glue), TLC orchestration, shrinking, known-findings classification, evidence"}],
     "checks": checks, "notes": "see DESIGN.md; known_findings.json lists recorded deviations and fixed defects", "not_applicable": na}
json.dump(m, open(os.path.join(V, "MANIFEST.json"), "w"), indent=1)
print("claimed:", claimed_ids)
