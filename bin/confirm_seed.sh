#!/bin/sh
# usage: confirm_seed.sh <ID> <agentN>   confirms a sub-agent's seeded change in its scratch worktree /tmp/wt/<ID>
# (demo fails with the change, passes without, the agent's full-suite log shows no failing pre-existing target) and files it under seeded/
ID=$1; N=$2; W=/tmp/wt/$ID; O=$W/_out; D=/verif/seeded/$ID-$N
cd $W || exit 2
export CARGO_TARGET_DIR=$W/target
git -C /repo apply --check $O/patch.diff && echo "applies to /repo HEAD: yes" || echo "applies to /repo HEAD: NO"
cp $O/seeded_demo.rs tests/seeded_demo.rs 2>/dev/null
git checkout -q -- src cddl-derive 2>/dev/null; git apply $O/patch.diff || { echo "patch does not apply to worktree"; exit 2; }
cargo test --offline --test seeded_demo > $O/demo_with.log 2>&1; echo "demo WITH change: exit=$? $(grep 'test result' $O/demo_with.log | head -1)"
git apply -R $O/patch.diff
cargo test --offline --test seeded_demo > $O/demo_without.log 2>&1; echo "demo WITHOUT change: exit=$? $(grep 'test result' $O/demo_without.log | head -1)"
L=$(ls $O/*.log | grep -v demo_ | head -1)
echo "agent full-suite log $L: ok=$(grep -c 'test result: ok' $L) failed=$(grep -c 'test result: FAILED' $L) failing targets: $(grep -E 'error: test failed|--test [a-z_]+' $L | grep -o '\-\-test [a-z_0-9]*' | sort -u | tr '\n' ' ')"
mkdir -p $D; cp $O/patch.diff $O/seeded_demo.rs $O/meta.agent.json $D/
