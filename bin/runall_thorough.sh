#!/bin/sh
# runs every thorough check once, sequentially; summary in work/thorough.txt
cd "$(dirname "$0")/.."
mkdir -p work
: > work/thorough.txt
for id in ${*:-C20 C15 C14 C13 C12 C16 C06 C07 C11 C03 C17 C18 C09 C04 C10 C08 C02 C01 C19 C05}; do
  s=$(date +%s)
  VERIF_TIER=thorough ./bin/check $id --tier thorough > work/thorough_$id.log 2>&1
  rc=$?
  e=$(date +%s)
  echo "$id exit=$rc $((e-s))s $(grep -c '^VIOLATION' work/thorough_$id.log) violations $(grep -c '^KNOWN-FINDING' work/thorough_$id.log) known" >> work/thorough.txt
done
