#!/bin/sh
# Offline set-up: build the executor against /repo and syntax-check every TLA+ module.
set -e
cd "$(dirname "$0")/.."
export CARGO_NET_OFFLINE=true
[ -f harness/Cargo.lock ] || cp /repo/Cargo.lock harness/Cargo.lock
(cd harness && cargo build --release --offline)
mkdir -p evidence work replays
cd spec
for m in *.tla; do
  tla-sany "$m" > ../work/sany.log 2>&1 || { cat ../work/sany.log; echo "SANY failed on $m"; exit 1; }
  if grep -q "Fatal errors\|\*\*\* Errors" ../work/sany.log; then cat ../work/sany.log; echo "SANY failed on $m"; exit 1; fi
done
cd ..
echo setup ok
