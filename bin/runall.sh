#!/bin/sh
# run every claimed check (quick unless VERIF_TIER is set) and summarise
cd "$(dirname "$0")/.."
for id in $(python3 -c "import json; print(' '.join(c['property_id'] for c in json.load(open('MANIFEST.json'))['checks']))"); do
  s=$(date +%s)
  ./bin/check $id > work/runall_$id.log 2>&1; rc=$?
  e=$(date +%s)
  echo "$id exit=$rc $((e-s))s $(grep -c '^VIOLATION' work/runall_$id.log) violations $(grep -c '^KNOWN-FINDING' work/runall_$id.log) known"
done
