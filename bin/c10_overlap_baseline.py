#!/usr/bin/env python3
"""Maintenance aid (never run by a check): prints the schemas of the fixed overlapping-key-domain family of lib/checks/c10.py whose
verdict depends on the encoding order on the tree as it is now.  Its output was pasted once into known_findings.json
(finding C10-overlapping-key-domains, field inputs) after reading the cases."""
import json, os, sys
sys.path.insert(0, os.path.join(os.path.dirname(os.path.abspath(__file__)), "..", "lib"))
sys.path.insert(0, os.path.join(os.path.dirname(os.path.abspath(__file__)), "..", "lib", "checks"))
import semcheck, vlib
from checks import c10
from checks.sem_common import observed_verdict
vlib.build_harness()
fam = c10.overlap_family()
cases = [{"fmt": "cbor", "rules": S, "val": v} for S, g in fam for v in g]
ops, res = semcheck.run_cases(cases)
k = 0
bad = {}
for S, g in fam:
    vs = [observed_verdict(r["obs"]) for r in res[k:k + len(g)]]
    text = ops[k]["cddl"].strip()
    k += len(g)
    if len(set(vs)) > 1:
        bad.setdefault(text, 0)
        bad[text] += 1
print(json.dumps(sorted(bad), indent=1))
sys.stderr.write("%d schemas of %d order-dependent\n" % (len(bad), len({json.dumps(S) for S, _ in fam})))
