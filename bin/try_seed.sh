#!/bin/sh
# usage: try_seed.sh <patch.diff> <ID>...   applies the patch to /repo, runs the checks, undoes the patch
P=$1; shift
cd /verif
[ -z "$(git -C /repo status --porcelain)" ] || { echo "/repo has uncommitted changes - commit or stash them first"; exit 2; }
git -C /repo apply "$P" || { echo "patch does not apply"; exit 2; }
for id in "$@"; do
  s=$(date +%s); ./bin/check $id > work/seed_$id.log 2>&1; rc=$?; e=$(date +%s)
  echo "$id exit=$rc $((e-s))s violations=$(grep -c '^VIOLATION' work/seed_$id.log)"
  grep "violation signature" work/seed_$id.log | head -4 | cut -c1-220
done
git -C /repo checkout -- .
./bin/check C11 > /dev/null 2>&1   # rebuild the executor against the restored tree
