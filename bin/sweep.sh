#!/bin/sh
# runs every quick check with several seeds; summary in work/sweep.txt (only non-zero exits and violation counts are of interest)
cd "$(dirname "$0")/.."
mkdir -p work
: > work/sweep.txt
for sd in ${*:-2 3 4 5}; do
  for id in C01 C02 C03 C04 C05 C06 C07 C08 C09 C10 C11 C12 C13 C14 C15 C16 C17 C18 C19 C20; do
    VERIF_SEED=$sd ./bin/check $id > work/sweep_${id}_$sd.log 2>&1
    rc=$?
    echo "seed=$sd $id exit=$rc $(grep -c '^VIOLATION' work/sweep_${id}_$sd.log)" >> work/sweep.txt
  done
done
