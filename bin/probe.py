#!/usr/bin/env python3
"""probe.py '<cddl>' '<json doc>' ... : verdict of both validators (JSON text; CBOR = preferred encoding of the same value)"""
import json, os, sys
sys.path.insert(0, os.path.join(os.path.dirname(os.path.abspath(__file__)), "..", "lib"))
import cborlib as C, vlib
def to_val(x):
    if x is None: return dict(C.NULL)
    if isinstance(x, bool): return C.mk_bool(x)
    if isinstance(x, int): return C.mk_int(x)
    if isinstance(x, float): return C.mk_float(x)
    if isinstance(x, str): return C.mk_text(x)
    if isinstance(x, list): return C.mk_arr([to_val(i) for i in x])
    return C.mk_map([(C.mk_text(k), to_val(v)) for k, v in x.items()])
vlib.build_harness()
cddl = sys.argv[1].replace("\\n", "\n")
ops = []
for d in sys.argv[2:]:
    ops.append({"id": len(ops), "op": "validate_json", "cddl": cddl, "json": d})
    ops.append({"id": len(ops), "op": "validate_cbor", "cddl": cddl, "hex": bytes(C.encode(to_val(json.loads(d)))).hex()})
res = vlib.execute(ops)
for o, r in zip(ops, res):
    ob = r["obs"]
    print(o["op"][9:], o.get("json") or o.get("hex"), "->", ob.get("kind"), (json.dumps(ob.get("errors") or ob.get("msg") or "")[:160]))
