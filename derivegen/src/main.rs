// C17 executor, text half: runs the code generator of cddl-derive (its source file is compiled in unchanged) on one
// schema per input line and prints the generated Rust source.  One process = one run of the generator's hashing state.
#[allow(dead_code, unused_imports, clippy::all)]
#[path = "/repo/cddl-derive/src/codegen.rs"]
mod codegen;

use serde_json::{json, Value as J};
use std::io::{BufRead, Write};

fn main() {
  let stdin = std::io::stdin();
  let stdout = std::io::stdout();
  for line in stdin.lock().lines() {
    let Ok(line) = line else { break };
    let Ok(op) = serde_json::from_str::<J>(&line) else { continue };
    let text = op["cddl"].as_str().unwrap_or("").to_string();
    let r = std::panic::catch_unwind(|| match cddl::parser::cddl_from_str(&text, false) {
      Err(e) => json!({"kind": "cddl", "msg": e.to_string()}),
      Ok(ast) => match codegen::generate_all_types(&ast, &text, &codegen::CodegenOptions::default()) {
        Ok(code) => json!({"kind": "ok", "code": code}),
        Err(e) => json!({"kind": "error", "msg": format!("{:?}", e)}),
      },
    });
    let obs = r.unwrap_or_else(|_| json!({"kind": "panic"}));
    let mut o = stdout.lock();
    let _ = writeln!(o, "{}", json!({"id": op["id"], "obs": obs}));
    let _ = o.flush();
  }
}
