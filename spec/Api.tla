--------------------------------- MODULE Api ---------------------------------
(* C14 (and the totality half of C05): the library as a memoryless service.
   A call is identified by its arguments (id); its result is abstracted to
   [kind, errs] where errs is the ordered sequence of [loc, reason] pairs.
   The state is the history: for every call seen so far, the result it returned first.
   Functional: a call returns the same result whatever happened before it and on whichever thread.
   Faithful: Err(Validation l) => l # <<>>; Ok <=> no error recorded; the three causes (malformed schema,
   malformed document, non-conforming document) are reported through distinct kinds; every JSON error
   location is "" or resolves to a node of the validated document.                                       *)
EXTENDS Integers, Sequences, FiniteSets, TLC

VARIABLE seen          \* function: call id -> first result
ApiInit == seen = <<>>     \* sequence indexed by call id (ids are 1..N); "none" = not yet seen
NoRes == [kind |-> "none", errs |-> <<>>]
\* the call returned res
Return(id, res) ==
  /\ id \in 1..Len(seen)
  /\ (seen[id] = NoRes \/ seen[id] = res)          \* enabled only if consistent with the history
  /\ seen' = [seen EXCEPT ![id] = res]

\* ---- faithfulness of one result.  cause = "schema" (malformed schema) | "document" (malformed document) | "wellformed", as constructed by the generator
KindsFor(cause) == CASE cause = "schema" -> {"cddl"} [] cause = "document" -> {"doc"} [] cause = "wellformed" -> {"ok", "validation"}
Faithful(res, cause) ==
  /\ res.kind \in KindsFor(cause)
  /\ (res.kind = "validation" => res.errs # <<>>)
  /\ (res.kind = "ok" => res.errs = <<>>)

\* ---- totality (C05): every call of every entry point returns; the abstract outcome of a call is one of these kinds.
\* "panic", "crash" (the process died: abort, stack overflow, signal) and "hang" (no return within the time bound) are
\* outcomes an execution of the real code can show but that are not behaviours of the Api.
ReturnKinds == {"ok", "validation", "cddl", "doc", "utf8", "feature", "jsonctl", "b16", "b64", "other", "accepted", "rejected", "value", "error"}
Total(kind) == kind \in ReturnKinds
\* time bound that grows polynomially with the input size n (bytes): c * (n + 1)^2 microseconds with a floor
WithinBound(n, us) == us <= 2000000 + 2 * (n + 1) * (IF n < 2048 THEN n + 1 ELSE 2048)

\* ---- JSON pointer resolution (segments are code-point sequences; array indices decimal)
IsIndex(seg) == seg # <<>> /\ \A i \in 1..Len(seg) : seg[i] >= 48 /\ seg[i] <= 57
RECURSIVE IndexVal(_,_,_)
IndexVal(seg, i, acc) == IF i > Len(seg) THEN acc ELSE IF acc > 100000 THEN acc ELSE IndexVal(seg, i + 1, acc * 10 + (seg[i] - 48))
RECURSIVE Resolves(_,_,_)
Resolves(v, segs, i) ==
  IF i > Len(segs) THEN TRUE
  ELSE IF v.k = "arr" THEN IsIndex(segs[i]) /\ IndexVal(segs[i], 1, 0) < Len(v.items) /\ Resolves(v.items[IndexVal(segs[i], 1, 0) + 1], segs, i + 1)
  ELSE IF v.k = "map" THEN \E p \in 1..Len(v.pairs) : v.pairs[p].key.k = "text" /\ v.pairs[p].key.cp = segs[i] /\ Resolves(v.pairs[p].val, segs, i + 1)
  ELSE FALSE
=============================================================================
