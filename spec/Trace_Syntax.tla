---------------------------- MODULE Trace_Syntax ----------------------------
(* Trace validation of parser calls for C03: {cs, accepted, cls}.  cs is the document as code
   points, accepted whether the real parser returned an AST, cls the class of the error when it did
   not ("syntax": a grammar-level error; "semantic": a derivable text rejected for a documented
   semantic reason - literal value, duplicate rule - which C07 / C12 decide).                     *)
EXTENDS Grammar, Json, TLC, IOUtils
Rec == ndJsonDeserialize(IOEnv.TRACE)
VARIABLE l
Judge(e) ==
  LET d == Derivable(e.cs) IN
  IF e.accepted THEN (IF d THEN "ok" ELSE "bad:accepted-not-derivable")
  ELSE IF e.cls = "semantic" THEN (IF d THEN "ok" ELSE "ok-nonderivable")
  ELSE (IF d THEN "bad:rejected-derivable" ELSE "ok")
Init == l = 1
Next == /\ l <= Len(Rec)
        /\ LET v == Judge(Rec[l]) IN
             IF v = "ok" THEN TRUE ELSE PrintT("V " \o ToJson([l |-> l, v |-> v]))
        /\ l' = l + 1
Spec == Init /\ [][Next]_l
Consumed == IF TLCGet("stats").diameter - 1 = Len(Rec) THEN TRUE
            ELSE PrintT("V " \o ToJson([l |-> TLCGet("stats").diameter, v |-> "unconsumed"]))
=============================================================================
