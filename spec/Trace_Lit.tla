------------------------------ MODULE Trace_Lit ------------------------------
(* Trace validation for C07: each event is one parse of a document that contains the literal
   spelled cs (class cls) at a known syntactic position, with what the real parser stored there:
   obs = [ok |-> TRUE, lit |-> TRUE, v |-> value] | [ok |-> TRUE, lit |-> FALSE] | [ok |-> FALSE].  *)
EXTENDS Literals, Json, IOUtils
Rec == ndJsonDeserialize(IOEnv.TRACE)
VARIABLE l
Judge(e) ==
  LET x == LitResult(e.cls, e.cs) IN
  CASE x.r = "either" -> "either"
    \* in positions where commas are optional the tail of an invalid spelling can be read as a further entry
    \* ("0b" = "0" "b"; "+1: int" = "+ 1: int"): there only the positive direction is checked (e.open)
    [] x.r = "reject" -> IF e.obs.ok /\ e.obs.lit /\ ~e.open THEN "bad:accepted-invalid" ELSE "ok"
    [] x.r = "value" -> IF ~e.obs.ok THEN "bad:rejected-valid"
                        ELSE IF ~e.obs.lit THEN "bad:not-a-literal"
                        ELSE IF VEq(x.v, e.obs.v) THEN "ok" ELSE "bad:wrong-value"
Init == l = 1
Next == /\ l <= Len(Rec)
        /\ LET v == Judge(Rec[l]) IN
             IF v = "ok" THEN TRUE ELSE PrintT("V " \o ToJson([l |-> l, v |-> v]))
        /\ l' = l + 1
Spec == Init /\ [][Next]_l
Consumed == IF TLCGet("stats").diameter - 1 = Len(Rec) THEN TRUE
            ELSE PrintT("V " \o ToJson([l |-> TLCGet("stats").diameter, v |-> "unconsumed"]))
=============================================================================
