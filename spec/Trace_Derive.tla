---------------------------- MODULE Trace_Derive ----------------------------
(* "Begin" {n}                     n schemas (generation calls 1..n)
   "Gen"   {id, res}               one run of the code generator in some process: res = [kind, errs = <<[loc, reason = digest]>>]
   "Names" {id, types, fields}     type names and, per struct, field names of the generated code
   "Build" {id, ok}                the generated code for schema id compiles
   "RT"    {id, rules, val, de, back, nval, nback}  one instance pushed through the generated type (n*: number-normalised copies)                      *)
EXTENDS Derive, Json, IOUtils
Rec == ndJsonDeserialize(IOEnv.TRACE)
VARIABLE l
Step(e) ==
  \/ e.ev = "Begin" /\ seen' = [i \in 1..e.n |-> NoRes]
  \/ e.ev = "Gen" /\ Return(e.id, e.res)
  \/ e.ev \in {"Names", "Build", "RT"} /\ UNCHANGED seen
Verdict(e) ==
  CASE e.ev = "Names" -> IF NamesOk(e.types, e.fields) THEN "ok" ELSE "bad:duplicate-name"
    [] e.ev = "Build" -> IF e.ok THEN "ok" ELSE "bad:does-not-compile"
    [] e.ev = "RT" -> RoundTrip(e.rules, e.val, e.de, IF e.de THEN e.back ELSE e.val, IF e.de THEN e.nval ELSE e.val, IF e.de THEN e.nback ELSE e.val)
    [] OTHER -> "ok"
Init == l = 1 /\ ApiInit
Matched == /\ l <= Len(Rec) /\ Step(Rec[l]) /\ l' = l + 1
           /\ (LET v == Verdict(Rec[l]) IN IF v = "ok" THEN TRUE ELSE PrintT("V " \o ToJson([l |-> l, v |-> v])))
Mismatch == /\ l <= Len(Rec) /\ Rec[l].ev = "Gen" /\ ~ENABLED Step(Rec[l])
            /\ PrintT("V " \o ToJson([l |-> l, v |-> "bad:generation-not-deterministic"]))
            /\ l' = l + 1 /\ UNCHANGED seen
Next == Matched \/ Mismatch
Spec == Init /\ [][Next]_<<l, seen>>
Consumed == IF TLCGet("stats").diameter - 1 = Len(Rec) THEN TRUE
            ELSE PrintT("V " \o ToJson([l |-> TLCGet("stats").diameter, v |-> "unconsumed"]))
=============================================================================
