----------------------------- MODULE MC_Features -----------------------------
(* every configuration is one state; the replay record says what must hold for it: it builds, and which operations it offers *)
EXTENDS Features, Json, IOUtils, SequencesExt
VARIABLE cfg
Init == cfg \in Configs /\ ApiInit
Next == UNCHANGED <<cfg, seen>>
Spec == Init /\ [][Next]_<<cfg, seen>>
AsSeq(S) == SetToSeq(S)
Emit == PrintT("R " \o ToJson([set |-> AsSeq(cfg), builds |-> MustBuild(cfg), ops |-> AsSeq(Provided(cfg))]))
=============================================================================
