------------------------------ MODULE Trace_Csv ------------------------------
(* Trace validation for C13.
   "Map"  {cs, header, ok, rows}       parse_csv_to_json on the text cs: the array of arrays it returned (projected)
   "Pair" {cs, header, okcsv, okjson}  validate_csv_from_str vs validate_json_from_str on the document the
                                        SPECIFICATION maps the text to (rendered by the harness from Csv!MapCsv)          *)
EXTENDS Csv, Json, IOUtils
Rec == ndJsonDeserialize(IOEnv.TRACE)
VARIABLE l
Judge(e) ==
  LET m == MapCsv(e.cs, e.header) IN
  IF ~m.ok THEN "outside"
  ELSE CASE e.ev = "Map" -> IF ~e.ok THEN "bad:rejected-wellformed" ELSE IF RowsEq(m.rows, e.rows) THEN "ok" ELSE "bad:mapping"
         [] e.ev = "Pair" -> IF e.okcsv = e.okjson THEN "ok" ELSE "bad:csv-json-verdicts-differ"
Init == l = 1
Next == /\ l <= Len(Rec)
        /\ LET v == Judge(Rec[l]) IN
             IF v = "ok" THEN TRUE ELSE PrintT("V " \o ToJson([l |-> l, v |-> v]))
        /\ l' = l + 1
Spec == Init /\ [][Next]_l
Consumed == IF TLCGet("stats").diameter - 1 = Len(Rec) THEN TRUE
            ELSE PrintT("V " \o ToJson([l |-> TLCGet("stats").diameter, v |-> "unconsumed"]))
=============================================================================
