------------------------------ MODULE Trace_Api ------------------------------
(* Trace validation for C14.
   "Begin"  {n}                                  a new batch of n distinct calls (ids 1..n)
   "Call"   {id, res}                            call id returned res (any thread, any repetition); must be enabled as Api!Return
   "Result" {cause, res, fmt, val, locs}          one result with the cause the generator constructed and the error locations as
                                                  segment sequences; checked for faithfulness and location resolution (JSON)       *)
EXTENDS Api, Json, IOUtils
Rec == ndJsonDeserialize(IOEnv.TRACE)
VARIABLE l
Step(e) ==
  \/ e.ev = "Begin" /\ seen' = [i \in 1..e.n |-> NoRes]
  \/ e.ev = "Call" /\ Return(e.id, e.res)
  \/ e.ev = "Result" /\ UNCHANGED seen
  \/ e.ev = "Outcome" /\ UNCHANGED seen
ResultVerdict(e) ==
  IF ~Faithful(e.res, e.cause) THEN "bad:unfaithful:" \o e.cause \o "->" \o e.res.kind
  ELSE IF e.fmt = "json" /\ \E i \in 1..Len(e.locs) : ~Resolves(e.val, e.locs[i], 1) THEN "bad:location-does-not-resolve"
  ELSE "ok"
Init == l = 1 /\ ApiInit
Matched == /\ l <= Len(Rec) /\ Step(Rec[l]) /\ l' = l + 1
           /\ (IF Rec[l].ev = "Result" /\ ResultVerdict(Rec[l]) # "ok" THEN PrintT("V " \o ToJson([l |-> l, v |-> ResultVerdict(Rec[l])])) ELSE TRUE)
           \* "Outcome" {kind, n, us}: one call of an entry point on an input of n bytes that took us microseconds (C05)
           /\ (IF Rec[l].ev = "Outcome" /\ ~Total(Rec[l].kind) THEN PrintT("V " \o ToJson([l |-> l, v |-> "bad:no-return:" \o Rec[l].kind]))
               ELSE IF Rec[l].ev = "Outcome" /\ ~WithinBound(Rec[l].n, Rec[l].us) THEN PrintT("V " \o ToJson([l |-> l, v |-> "bad:too-slow"]))
               ELSE TRUE)
\* a Call that contradicts the history is not a behaviour of Api: recorded, and the trace goes on
Mismatch == /\ l <= Len(Rec) /\ Rec[l].ev = "Call" /\ ~ENABLED Step(Rec[l])
            /\ PrintT("V " \o ToJson([l |-> l, v |-> "bad:not-functional"]))
            /\ l' = l + 1 /\ UNCHANGED seen
Next == Matched \/ Mismatch
Spec == Init /\ [][Next]_<<l, seen>>
Consumed == IF TLCGet("stats").diameter - 1 = Len(Rec) THEN TRUE
            ELSE PrintT("V " \o ToJson([l |-> TLCGet("stats").diameter, v |-> "unconsumed"]))
=============================================================================
