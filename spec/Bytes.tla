------------------------------- MODULE Bytes -------------------------------
(* Big naturals as big-endian byte sequences without leading zeros (zero = <<0>>),
   bit sequences, and UTF-8.  TLC integers are 32-bit, so everything that may
   exceed 2^31 (CBOR head arguments, 64-bit literals, IEEE-754 payloads) lives here. *)
EXTENDS Integers, Sequences

RECURSIVE Strip(_)
Strip(bs) == IF bs = <<>> THEN <<0>>
             ELSE IF Len(bs) > 1 /\ bs[1] = 0 THEN Strip(Tail(bs)) ELSE bs

RECURSIVE LexCmp(_,_,_)
LexCmp(a, b, i) == IF i > Len(a) THEN 0
                   ELSE IF a[i] < b[i] THEN -1 ELSE IF a[i] > b[i] THEN 1 ELSE LexCmp(a, b, i+1)
\* comparison of two stripped big naturals: -1, 0, 1
NatCmp(a, b) == IF Len(a) < Len(b) THEN -1 ELSE IF Len(a) > Len(b) THEN 1 ELSE LexCmp(a, b, 1)

\* signed integers [neg, mag]: value = IF neg THEN -1 - mag ELSE mag
IntCmp(an, am, bn, bm) ==
  IF an /\ ~bn THEN -1 ELSE IF ~an /\ bn THEN 1
  ELSE IF ~an THEN NatCmp(am, bm) ELSE NatCmp(bm, am)

\* small natural (< 2^24) of a stripped byte sequence, or -1
Small(bs) == IF Len(bs) > 3 THEN -1
             ELSE IF Len(bs) = 1 THEN bs[1]
             ELSE IF Len(bs) = 2 THEN bs[1]*256 + bs[2]
             ELSE bs[1]*65536 + bs[2]*256 + bs[3]

RECURSIVE NatOfSmallR(_)
NatOfSmallR(n) == IF n < 256 THEN <<n>> ELSE Append(NatOfSmallR(n \div 256), (n % 256))
NatOfSmall(n) == NatOfSmallR(n)

\* ---- bits
RECURSIVE ByteBits(_,_)
ByteBits(b, n) == IF n = 0 THEN <<>> ELSE Append(ByteBits(b \div 2, n-1), b % 2)
RECURSIVE BitsOf(_)
BitsOf(bs) == IF bs = <<>> THEN <<>> ELSE ByteBits(bs[1], 8) \o BitsOf(Tail(bs))
RECURSIVE BitsVal(_)   \* only for short bit sequences (< 31 bits)
BitsVal(bits) == IF bits = <<>> THEN 0 ELSE 2 * BitsVal(SubSeq(bits, 1, Len(bits)-1)) + bits[Len(bits)]
RECURSIVE BytesOfBits(_)
BytesOfBits(bits) == IF bits = <<>> THEN <<>>
                     ELSE <<BitsVal(SubSeq(bits, 1, 8))>> \o BytesOfBits(SubSeq(bits, 9, Len(bits)))
Zeros(n) == [i \in 1..n |-> 0]
AllZero(bits) == \A i \in 1..Len(bits) : bits[i] = 0
RECURSIVE FirstOne(_,_)
FirstOne(bits, i) == IF i > Len(bits) THEN 0 ELSE IF bits[i] = 1 THEN i ELSE FirstOne(bits, i+1)

\* ---- IEEE 754: widen binary16 / binary32 to the binary64 bit pattern (exact)
CanonNaN == <<127,248,0,0,0,0,0,0>>
\* eb exponent bits, mb mantissa bits, bias
Widen(bits, eb, mb, bias) ==
  LET s == bits[1]
      e == BitsVal(SubSeq(bits, 2, 1+eb))
      m == SubSeq(bits, 2+eb, 1+eb+mb)
      maxe == (2^eb) - 1
  IN IF e = maxe THEN
        IF AllZero(m) THEN [nan |-> FALSE, bits |-> BytesOfBits(<<s>> \o ByteBits(2047, 11) \o Zeros(52))]
        ELSE [nan |-> TRUE, bits |-> CanonNaN]
     ELSE IF e = 0 THEN
        IF AllZero(m) THEN [nan |-> FALSE, bits |-> BytesOfBits(<<s>> \o Zeros(63))]
        ELSE \* subnormal: value = 0.m * 2^(1-bias); leading one at position p (1-based in m)
             LET p == FirstOne(m, 1)
                 e64 == (1 - bias) - p + 1023
                 rest == SubSeq(m, p+1, mb)
             IN [nan |-> FALSE, bits |-> BytesOfBits(<<s>> \o ByteBits(e64, 11) \o rest \o Zeros(52 - Len(rest)))]
     ELSE [nan |-> FALSE, bits |-> BytesOfBits(<<s>> \o ByteBits(e - bias + 1023, 11) \o m \o Zeros(52 - mb))]
F64OfRaw(raw) ==
  IF Len(raw) = 2 THEN Widen(BitsOf(raw), 5, 10, 15)
  ELSE IF Len(raw) = 4 THEN Widen(BitsOf(raw), 8, 23, 127)
  ELSE LET bits == BitsOf(raw)
           e == BitsVal(SubSeq(bits, 2, 12))
       IN IF e = 2047 /\ ~AllZero(SubSeq(bits, 13, 64)) THEN [nan |-> TRUE, bits |-> CanonNaN]
          ELSE [nan |-> FALSE, bits |-> raw]

\* ---- UTF-8
RECURSIVE Utf8Ok(_,_)
Utf8Ok(s, i) ==
  IF i > Len(s) THEN TRUE ELSE
  LET c == s[i] IN
  IF c < 128 THEN Utf8Ok(s, i+1)
  ELSE IF c >= 194 /\ c <= 223 THEN i+1 <= Len(s) /\ s[i+1] \in 128..191 /\ Utf8Ok(s, i+2)
  ELSE IF c >= 224 /\ c <= 239 THEN i+2 <= Len(s) /\ s[i+1] \in (IF c = 224 THEN 160..191 ELSE IF c = 237 THEN 128..159 ELSE 128..191) /\ s[i+2] \in 128..191 /\ Utf8Ok(s, i+3)
  ELSE IF c >= 240 /\ c <= 244 THEN i+3 <= Len(s) /\ s[i+1] \in (IF c = 240 THEN 144..191 ELSE IF c = 244 THEN 128..143 ELSE 128..191) /\ s[i+2] \in 128..191 /\ s[i+3] \in 128..191 /\ Utf8Ok(s, i+4)
  ELSE FALSE
\* decode valid UTF-8 to code points
RECURSIVE Utf8Dec(_,_)
Utf8Dec(s, i) ==
  IF i > Len(s) THEN <<>> ELSE
  LET c == s[i] IN
  IF c < 128 THEN <<c>> \o Utf8Dec(s, i+1)
  ELSE IF c < 224 THEN <<(c - 192) * 64 + (s[i+1] - 128)>> \o Utf8Dec(s, i+2)
  ELSE IF c < 240 THEN <<(c - 224) * 4096 + (s[i+1] - 128) * 64 + (s[i+2] - 128)>> \o Utf8Dec(s, i+3)
  ELSE <<(c - 240) * 262144 + (s[i+1] - 128) * 4096 + (s[i+2] - 128) * 64 + (s[i+3] - 128)>> \o Utf8Dec(s, i+4)
\* UTF-8 length of one code point / a code point sequence
CpLen(c) == IF c < 128 THEN 1 ELSE IF c < 2048 THEN 2 ELSE IF c < 65536 THEN 3 ELSE 4
RECURSIVE Utf8Len(_)
Utf8Len(cp) == IF cp = <<>> THEN 0 ELSE CpLen(cp[1]) + Utf8Len(Tail(cp))
RECURSIVE Utf8Enc(_)
Utf8Enc(cp) ==
  IF cp = <<>> THEN <<>> ELSE
  LET c == cp[1] IN
  (IF c < 128 THEN <<c>>
   ELSE IF c < 2048 THEN <<192 + (c \div 64), 128 + (c % 64)>>
   ELSE IF c < 65536 THEN <<224 + (c \div 4096), 128 + ((c \div 64) % 64), 128 + (c % 64)>>
   ELSE <<240 + (c \div 262144), 128 + ((c \div 4096) % 64), 128 + ((c \div 64) % 64), 128 + (c % 64)>>) \o Utf8Enc(Tail(cp))
=============================================================================
