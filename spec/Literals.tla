------------------------------ MODULE Literals ------------------------------
(* C07: the value RFC 8610 / RFC 9682 (and RFC 4648 for the encodings) assign to a literal
   spelling, or Reject.  A spelling is a sequence of Unicode scalar values (strings are opaque in
   TLC).  Big integers are byte sequences (Bytes.tla).  Floats: only spellings that denote a
   binary64 value exactly are decided; other decimal spellings are "E" (rounding is not specified
   here), except that a magnitude beyond the binary64 range is not representable (Reject).        *)
EXTENDS CddlSem

Rej == [r |-> "reject"]
Val(v) == [r |-> "value", v |-> v]
Either == [r |-> "either"]

IsDigit(c) == c >= 48 /\ c <= 57
IsHex(c) == IsDigit(c) \/ (c >= 65 /\ c <= 70) \/ (c >= 97 /\ c <= 102)
HexVal(c) == IF IsDigit(c) THEN c - 48 ELSE IF c >= 97 THEN c - 87 ELSE c - 55
IsWs(c) == c \in {32, 9, 10, 13}

\* big natural * m + a  (m, a small)
RECURSIVE MSA(_,_,_,_)
MSA(bs, i, m, carry) ==
  IF i = 0 THEN (IF carry = 0 THEN <<>> ELSE NatOfSmall(carry))
  ELSE LET x == bs[i] * m + carry IN Append(MSA(bs, i - 1, m, x \div 256), x % 256)
MulAdd(bs, m, a) == Strip(MSA(bs, Len(bs), m, a))
RECURSIVE NatOfDigits(_,_,_,_)
NatOfDigits(cs, i, radix, acc) == IF i > Len(cs) THEN acc ELSE NatOfDigits(cs, i + 1, radix, MulAdd(acc, radix, HexVal(cs[i])))
RECURSIVE AllIn(_,_,_)
AllIn(cs, i, radix) == i > Len(cs) \/ (IsHex(cs[i]) /\ HexVal(cs[i]) < radix /\ AllIn(cs, i + 1, radix))
\* small natural of digit sequence (callers guarantee it is short)
RECURSIVE SmallOfDigits(_,_,_,_)
SmallOfDigits(cs, i, radix, acc) == IF i > Len(cs) THEN acc ELSE SmallOfDigits(cs, i + 1, radix, acc * radix + HexVal(cs[i]))

Max64 == <<255,255,255,255,255,255,255,255>>
Max63 == <<127,255,255,255,255,255,255,255>>     \* 2^63 - 1
Pow63 == <<128,0,0,0,0,0,0,0>>

\* uint = DIGIT1 *DIGIT / "0x" 1*HEXDIG / "0b" 1*BINDIG / "0"   (ABNF strings are case-insensitive)
UintOf(cs) ==
  IF cs = <<>> THEN [ok |-> FALSE]
  ELSE IF Len(cs) >= 3 /\ cs[1] = 48 /\ cs[2] \in {120, 88} /\ AllIn(cs, 3, 16) THEN [ok |-> TRUE, mag |-> NatOfDigits(cs, 3, 16, <<0>>)]
  ELSE IF Len(cs) >= 3 /\ cs[1] = 48 /\ cs[2] \in {98, 66} /\ AllIn(cs, 3, 2) THEN [ok |-> TRUE, mag |-> NatOfDigits(cs, 3, 2, <<0>>)]
  ELSE IF cs = <<48>> THEN [ok |-> TRUE, mag |-> <<0>>]
  ELSE IF cs[1] >= 49 /\ cs[1] <= 57 /\ AllIn(cs, 1, 10) THEN [ok |-> TRUE, mag |-> NatOfDigits(cs, 1, 10, <<0>>)]
  ELSE [ok |-> FALSE]
\* integer literal in a value position: usize / isize of a 64-bit target
IntLit(cs) ==
  LET neg == cs # <<>> /\ cs[1] = 45
      u == UintOf(IF neg THEN Tail(cs) ELSE cs) IN
  IF ~u.ok THEN Rej
  ELSE IF ~neg THEN (IF NatCmp(u.mag, Max64) <= 0 THEN Val([k |-> "int", neg |-> FALSE, mag |-> u.mag]) ELSE Rej)
  ELSE IF u.mag = <<0>> THEN Val([k |-> "int", neg |-> FALSE, mag |-> <<0>>])
  ELSE IF NatCmp(u.mag, Pow63) <= 0 THEN Val([k |-> "int", neg |-> TRUE, mag |-> Strip(MSA(u.mag, Len(u.mag), 1, -1))]) ELSE Rej
\* unsigned number positions: occurrence bounds, tag numbers, simple-value numbers
UintLit(cs) == LET u == UintOf(cs) IN
  IF ~u.ok THEN Rej ELSE IF NatCmp(u.mag, Max64) <= 0 THEN Val([k |-> "int", neg |-> FALSE, mag |-> u.mag]) ELSE Rej

\* ---- floats
Find(cs, S) == LET ix == {i \in 1..Len(cs) : cs[i] \in S} IN IF ix = {} THEN 0 ELSE CHOOSE i \in ix : \A j \in ix : i <= j
RECURSIVE Pow(_,_)
Pow(b, n) == IF n = 0 THEN 1 ELSE b * Pow(b, n - 1)
ScaleExp(bits, d) ==   \* multiply a normal non-zero double by 2^d (result stays normal in the generated fragment)
  IF FIsZero(bits) THEN bits
  ELSE LET e == FExp(bits) + d IN
       <<(IF FNeg(bits) THEN 128 ELSE 0) + (e \div 16), (e % 16) * 16 + (bits[2] % 16)>> \o SubSeq(bits, 3, 8)
NegBits(bits, neg) == IF neg THEN <<bits[1] + 128>> \o Tail(bits) ELSE bits
FVal(bits) == Val([k |-> "float", bits |-> bits, nan |-> FALSE])
\* number = int ["." fraction] ["e" exponent]      (decimal float; int without "." / "e" is handled by IntLit)
DecFloat(cs) ==
  LET neg == cs[1] = 45
      b == IF neg THEN Tail(cs) ELSE cs
      ie == Find(b, {101, 69})
      mant == IF ie = 0 THEN b ELSE SubSeq(b, 1, ie - 1)
      ex == IF ie = 0 THEN <<>> ELSE SubSeq(b, ie + 1, Len(b))
      exneg == ex # <<>> /\ ex[1] = 45
      exd == IF ex # <<>> /\ ex[1] \in {43, 45} THEN Tail(ex) ELSE ex
      id == Find(mant, {46})
      ip == IF id = 0 THEN mant ELSE SubSeq(mant, 1, id - 1)
      fp == IF id = 0 THEN <<>> ELSE SubSeq(mant, id + 1, Len(mant))
      okSyntax == UintOf(ip).ok /\ (ip = <<48>> \/ (ip[1] # 48)) /\ AllIn(ip, 1, 10) /\ (id = 0 \/ (fp # <<>> /\ AllIn(fp, 1, 10)))
                  /\ (ie = 0 \/ (exd # <<>> /\ AllIn(exd, 1, 10))) /\ (id # 0 \/ ie # 0)
  IN IF ~okSyntax THEN Rej
     ELSE IF Len(ip) + Len(fp) > 8 \/ Len(exd) > 3 THEN Either
     ELSE LET N == SmallOfDigits(ip \o fp, 1, 10, 0)
              E == (IF exd = <<>> THEN 0 ELSE (IF exneg THEN -1 ELSE 1) * SmallOfDigits(exd, 1, 10, 0)) - Len(fp)
          IN IF N = 0 THEN FVal(NegBits(Zero64, neg))
             ELSE IF E > 308 THEN Rej                     \* beyond the binary64 range: not representable
             ELSE IF E >= 0 THEN (IF E <= 9 /\ Len(ip \o fp) + E <= 9
                                  THEN FVal(NegBits(F64OfSmallInt(FALSE, NatOfSmall(N * Pow(10, E))), neg)) ELSE Either)
             ELSE LET k == -E IN
                  IF k <= 9 /\ N % Pow(5, k) = 0 THEN FVal(NegBits(ScaleExp(F64OfSmallInt(FALSE, NatOfSmall(N \div Pow(5, k))), -k), neg))
                  ELSE Either
\* hexfloat = ["-"] "0x" 1*HEXDIG ["." 1*HEXDIG] "p" exponent
HexFloat(cs) ==
  LET neg == cs[1] = 45
      b == IF neg THEN Tail(cs) ELSE cs
      ip0 == Find(b, {112, 80})
      mant == SubSeq(b, 3, ip0 - 1)
      ex == SubSeq(b, ip0 + 1, Len(b))
      exneg == ex # <<>> /\ ex[1] = 45
      exd == IF ex # <<>> /\ ex[1] \in {43, 45} THEN Tail(ex) ELSE ex
      id == Find(mant, {46})
      hp == IF id = 0 THEN mant ELSE SubSeq(mant, 1, id - 1)
      fp == IF id = 0 THEN <<>> ELSE SubSeq(mant, id + 1, Len(mant))
  IN IF ~(Len(b) >= 5 /\ b[1] = 48 /\ b[2] \in {120, 88} /\ ip0 > 3 /\ hp # <<>> /\ AllIn(hp, 1, 16) /\ (id = 0 \/ (fp # <<>> /\ AllIn(fp, 1, 16)))
          /\ exd # <<>> /\ AllIn(exd, 1, 10)) THEN Rej
     ELSE IF Len(hp) + Len(fp) > 6 \/ Len(exd) > 2 THEN Either
     ELSE LET M == SmallOfDigits(hp \o fp, 1, 16, 0)
              p == (IF exneg THEN -1 ELSE 1) * SmallOfDigits(exd, 1, 10, 0)
          IN IF M = 0 THEN FVal(NegBits(Zero64, neg))
             ELSE FVal(NegBits(ScaleExp(F64OfSmallInt(FALSE, NatOfSmall(M)), p - 4 * Len(fp)), neg))

NumberLit(cs) ==
  LET b == IF cs # <<>> /\ cs[1] = 45 THEN Tail(cs) ELSE cs
      isHexPrefix == Len(b) >= 2 /\ b[1] = 48 /\ b[2] \in {120, 88}
  IN IF cs = <<>> \/ b = <<>> THEN Rej
     ELSE IF isHexPrefix /\ Find(b, {112, 80}) # 0 THEN HexFloat(cs)
     ELSE IF isHexPrefix \/ (Len(b) >= 2 /\ b[1] = 48 /\ b[2] \in {98, 66}) THEN IntLit(cs)
     ELSE IF Find(b, {46, 101, 69}) # 0 THEN DecFloat(cs)
     ELSE IntLit(cs)

\* ---- text: SESC of RFC 9682
RECURSIVE Unesc(_,_,_)
Hex4(cs, i) == IF i + 3 <= Len(cs) /\ \A j \in i..(i+3) : IsHex(cs[j]) THEN SmallOfDigits(SubSeq(cs, i, i + 3), 1, 16, 0) ELSE -1
Unesc(cs, i, acc) ==
  IF i > Len(cs) THEN Val([k |-> "text", cp |-> acc])
  ELSE LET c == cs[i] IN
  \* a raw character must be an SCHAR: %x20-21 / %x23-5B / %x5D-7E / %x80-10FFFD
  IF c # 92 THEN (IF c = 34 \/ c < 32 \/ c = 127 \/ c > 1114109 THEN Rej ELSE Unesc(cs, i + 1, Append(acc, c)))
  ELSE IF i + 1 > Len(cs) THEN Rej
  ELSE LET d == cs[i + 1] IN
       CASE d \in {34, 47, 92} -> Unesc(cs, i + 2, Append(acc, d))
         [] d = 98 -> Unesc(cs, i + 2, Append(acc, 8))
         [] d = 102 -> Unesc(cs, i + 2, Append(acc, 12))
         [] d = 110 -> Unesc(cs, i + 2, Append(acc, 10))
         [] d = 114 -> Unesc(cs, i + 2, Append(acc, 13))
         [] d = 116 -> Unesc(cs, i + 2, Append(acc, 9))
         [] d = 117 ->
              IF i + 2 <= Len(cs) /\ cs[i + 2] = 123 THEN
                 \* \u{H...}: any number of leading zeros, then a scalar value
                 LET close == Find(SubSeq(cs, i + 3, Len(cs)), {125})
                     hs == SubSeq(cs, i + 3, i + 1 + close)
                 IN IF close <= 1 \/ ~AllIn(hs, 1, 16) THEN Rej
                    ELSE LET sig == NatOfDigits(hs, 1, 16, <<0>>) IN
                         IF Len(sig) > 3 THEN Rej
                         ELSE LET v == Small(sig) IN
                              IF v > 1114111 \/ (v >= 55296 /\ v <= 57343) THEN Rej
                              ELSE Unesc(cs, i + 3 + close, Append(acc, v))
              ELSE LET h == Hex4(cs, i + 2) IN
                   IF h = -1 THEN Rej
                   ELSE IF h >= 56320 /\ h <= 57343 THEN Rej                           \* lone low surrogate
                   ELSE IF h >= 55296 /\ h <= 56319 THEN
                        (IF i + 7 <= Len(cs) /\ cs[i + 6] = 92 /\ cs[i + 7] = 117 /\ Hex4(cs, i + 8) >= 56320 /\ Hex4(cs, i + 8) <= 57343
                         THEN Unesc(cs, i + 12, Append(acc, 65536 + (h - 55296) * 1024 + (Hex4(cs, i + 8) - 56320)))
                         ELSE Rej)
                   ELSE Unesc(cs, i + 6, Append(acc, h))
         [] OTHER -> Rej
TextLit(cs) == IF Len(cs) < 2 \/ cs[1] # 34 \/ cs[Len(cs)] # 34 THEN Rej ELSE Unesc(SubSeq(cs, 2, Len(cs) - 1), 1, <<>>)

\* ---- byte strings
\* whitespace and ';' comments (to end of line) inside a prefixed byte string are ignored (RFC 8610 3.1)
RECURSIVE Clean(_,_,_,_)
Clean(cs, i, incomment, acc) ==
  IF i > Len(cs) THEN acc
  ELSE IF incomment THEN Clean(cs, i + 1, cs[i] # 10, acc)
  ELSE IF cs[i] = 59 THEN Clean(cs, i + 1, TRUE, acc)
  ELSE IF IsWs(cs[i]) THEN Clean(cs, i + 1, FALSE, acc)
  ELSE Clean(cs, i + 1, FALSE, Append(acc, cs[i]))
RECURSIVE HexPairs(_,_)
HexPairs(cs, i) == IF i > Len(cs) THEN <<>> ELSE <<HexVal(cs[i]) * 16 + HexVal(cs[i + 1])>> \o HexPairs(cs, i + 2)
HexBytes(body) == LET c == Clean(body, 1, FALSE, <<>>) IN
  IF Len(c) % 2 = 0 /\ AllIn(c, 1, 16) THEN Val([k |-> "bytes", bs |-> HexPairs(c, 1)]) ELSE Rej
\* RFC 4648: base64 (+ /) or base64url (- _), one alphabet per literal, optional canonical padding
B64Val(c) == IF c >= 65 /\ c <= 90 THEN c - 65 ELSE IF c >= 97 /\ c <= 122 THEN c - 71 ELSE IF IsDigit(c) THEN c + 4
             ELSE IF c \in {43, 45} THEN 62 ELSE IF c \in {47, 95} THEN 63 ELSE -1
RECURSIVE B64Bits(_,_)
B64Bits(cs, i) == IF i > Len(cs) THEN <<>> ELSE ByteBits(B64Val(cs[i]), 6) \o B64Bits(cs, i + 1)
B64Bytes(body) ==
  LET c == Clean(body, 1, FALSE, <<>>)
      npad == Cardinality({i \in 1..Len(c) : c[i] = 61})
      data == SubSeq(c, 1, Len(c) - npad)
      padAtEnd == \A i \in 1..Len(c) : c[i] = 61 => i > Len(c) - npad
      classic == \E i \in 1..Len(data) : data[i] \in {43, 47}
      url == \E i \in 1..Len(data) : data[i] \in {45, 95}
      rem == Len(data) % 4
  IN IF ~padAtEnd \/ (classic /\ url) \/ (\E i \in 1..Len(data) : B64Val(data[i]) = -1) \/ rem = 1 THEN Rej
     ELSE IF npad # 0 /\ npad # (4 - rem) % 4 THEN Rej
     ELSE LET bits == B64Bits(data, 1)
              nbytes == Len(bits) \div 8
              tailbits == SubSeq(bits, nbytes * 8 + 1, Len(bits))
          IN IF ~AllZero(tailbits) THEN Either       \* non-canonical trailing bits: RFC 4648 3.5 lets a decoder reject
             ELSE Val([k |-> "bytes", bs |-> BytesOfBits(SubSeq(bits, 1, nbytes * 8))])
BytesLit(cs) ==
  IF Len(cs) >= 2 /\ cs[1] = 39 /\ cs[Len(cs)] = 39 THEN
       \* unprefixed: the UTF-8 bytes of the text (literals with escapes are outside the generated fragment)
       LET body == SubSeq(cs, 2, Len(cs) - 1) IN
       IF \E i \in 1..Len(body) : body[i] \in {39, 92} THEN Either ELSE Val([k |-> "bytes", bs |-> Utf8Enc(body)])
  \* the ABNF strings "h" and "b64" are case-insensitive; the crate's grammar file documents the lower-case qualifiers only: upper case is "either"
  ELSE IF Len(cs) >= 3 /\ cs[1] = 72 /\ cs[2] = 39 /\ cs[Len(cs)] = 39 THEN Either
  ELSE IF Len(cs) >= 5 /\ cs[1] = 66 /\ cs[2] = 54 /\ cs[3] = 52 /\ cs[4] = 39 /\ cs[Len(cs)] = 39 THEN Either
  ELSE IF Len(cs) >= 3 /\ cs[1] = 104 /\ cs[2] = 39 /\ cs[Len(cs)] = 39 THEN HexBytes(SubSeq(cs, 3, Len(cs) - 1))
  ELSE IF Len(cs) >= 5 /\ cs[1] = 98 /\ cs[2] = 54 /\ cs[3] = 52 /\ cs[4] = 39 /\ cs[Len(cs)] = 39 THEN B64Bytes(SubSeq(cs, 5, Len(cs) - 1))
  ELSE Rej

\* the literal of class cls ("num" | "uint" | "text" | "bytes") spelled cs
LitResult(cls, cs) ==
  CASE cls = "num" -> NumberLit(cs)
    [] cls = "uint" -> UintLit(cs)
    [] cls = "text" -> TextLit(cs)
    [] cls = "bytes" -> BytesLit(cs)
=============================================================================
