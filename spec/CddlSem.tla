------------------------------ MODULE CddlSem ------------------------------
(* RFC 8610 matching semantics as an executable definition (the oracle).

   Values   : see Cbor.tla (records with a kind field k and kind-specific payload fields).
   Schemas  : sequence of rule records (CddlAst encoding, see DESIGN.md 2.2 / lib/cddlgen.py)
              rule  = [name, kind "type"|"group", op "="|"/="|"//=", params <<names>>, t Type | e Entry]
              Type  = [alts |-> <<Type1,...>>]
              Type1 = [k |-> "lit"|"ref"|"paren"|"map"|"arr"|"unwrap"|"enumg"|"enumr"|"tag"|"major"|"any"|"range"|"ctl", ...]
              Group = [galts |-> << <<Entry,...>>, ... >>]
              Entry = [k |-> "ent"|"name"|"sub", lo, hi (-1 = unbounded), ...]
   Context  : cx = [md   |-> "E" | "G"      map reading: existential / greedy (envelope, DESIGN.md 5)
                    ifl  |-> BOOLEAN        TRUE: an integral JSON float is also an integer (JSON cannot distinguish)
                    fmt  |-> "json"|"cbor"
                    dev  |-> set of named deviations of the implementation (known findings)]
   Arrays are matched as the ordered greedy PEG sequence the crate documents; maps declaratively.   *)
EXTENDS Bytes, FiniteSets, TLC

\* ------------------------------------------------------------------ values
IsInt(v) == v.k = "int"
IsFloat(v) == v.k = "float"
Zero64 == <<0,0,0,0,0,0,0,0>>
FMag(bits) == <<bits[1] % 128>> \o SubSeq(bits, 2, 8)
FNeg(bits) == bits[1] >= 128
FIsZero(bits) == FMag(bits) = Zero64
\* numeric comparison of two non-NaN doubles given as 8 bytes: -1, 0, 1
FloatCmp(a, b) ==
  IF FIsZero(a) /\ FIsZero(b) THEN 0
  ELSE IF FNeg(a) /\ ~FNeg(b) THEN -1 ELSE IF ~FNeg(a) /\ FNeg(b) THEN 1
  ELSE IF ~FNeg(a) THEN LexCmp(FMag(a), FMag(b), 1) ELSE LexCmp(FMag(b), FMag(a), 1)
\* is the double an integer, and which one?  Only small magnitudes (|x| < 2^31) are recognised,
\* larger integral floats are reported as non-integral "big" (callers treat them as either-way).
FExp(bits) == (bits[1] % 128) * 16 + (bits[2] \div 16)            \* biased exponent
FMant(bits) == <<bits[2] % 16>> \o SubSeq(bits, 3, 8)             \* 52 bits in 7 bytes (first holds 4 bits)
FBits52(bits) == SubSeq(ByteBits(bits[2] % 16, 4), 1, 4) \o BitsOf(SubSeq(bits, 3, 8))
FIntegral(bits) ==
  IF FIsZero(bits) THEN TRUE
  ELSE LET e == FExp(bits) - 1023 IN
       IF e < 0 THEN FALSE ELSE IF e >= 52 THEN TRUE
       ELSE AllZero(SubSeq(FBits52(bits), e + 1, 52))
\* integer value of an integral double with |x| < 2^31 as [neg, mag]; otherwise "big"
FAsInt(bits) ==
  IF FIsZero(bits) THEN [big |-> FALSE, neg |-> FALSE, mag |-> <<0>>]
  ELSE LET e == FExp(bits) - 1023 IN
       IF e > 30 THEN [big |-> TRUE]
       ELSE LET m == BitsVal(<<1>> \o SubSeq(FBits52(bits), 1, e)) IN
            IF FNeg(bits) THEN [big |-> FALSE, neg |-> TRUE, mag |-> NatOfSmall(m - 1)]
            ELSE [big |-> FALSE, neg |-> FALSE, mag |-> NatOfSmall(m)]

\* the double that equals a small integer (|i| < 2^31), as 8 bytes
Nat4(mag) == IF Len(mag) = 4 THEN ((mag[1] * 256 + mag[2]) * 256 + mag[3]) * 256 + mag[4] ELSE Small(mag)
F64OfSmallInt(neg, mag) ==
  LET m == Nat4(mag) + (IF neg THEN 1 ELSE 0) IN
  IF m = 0 THEN Zero64
  ELSE LET b == ByteBits(m, 31)
           p == FirstOne(b, 1)
           rest == SubSeq(b, p + 1, 31)
       IN BytesOfBits(<<IF neg THEN 1 ELSE 0>> \o ByteBits(1023 + (31 - p), 11) \o rest \o Zeros(52 - Len(rest)))
IsSmallInt(v) == v.k = "int" /\ (Len(v.mag) < 4 \/ (Len(v.mag) = 4 /\ v.mag[1] < 127))

RECURSIVE VEq(_,_), SeqVEq(_,_,_)
VEq(a, b) ==
  a.k = b.k /\
  CASE a.k = "int" -> a.neg = b.neg /\ a.mag = b.mag
    [] a.k = "float" -> IF a.nan \/ b.nan THEN a.nan /\ b.nan ELSE FloatCmp(a.bits, b.bits) = 0
    [] a.k = "text" -> a.cp = b.cp
    [] a.k = "bytes" -> a.bs = b.bs
    [] a.k = "bool" -> a.b = b.b
    [] a.k = "null" -> TRUE
    [] a.k = "undefined" -> TRUE
    [] a.k = "simple" -> a.sn = b.sn
    [] a.k = "arr" -> Len(a.items) = Len(b.items) /\ SeqVEq(a.items, b.items, 1)
    [] a.k = "tag" -> a.tn = b.tn /\ VEq(a.c, b.c)
    [] OTHER -> FALSE
SeqVEq(xs, ys, i) == i > Len(xs) \/ (VEq(xs[i], ys[i]) /\ SeqVEq(xs, ys, i+1))

\* number comparison for values of the same numeric kind; "x" when not comparable in the fragment
NumCmp(a, b) ==
  IF a.k = "int" /\ b.k = "int" THEN IntCmp(a.neg, a.mag, b.neg, b.mag)
  ELSE IF a.k = "float" /\ b.k = "float" /\ ~a.nan /\ ~b.nan THEN FloatCmp(a.bits, b.bits)
  \* a float against a (small) integer: numerically
  ELSE IF a.k = "float" /\ ~a.nan /\ b.k = "int" /\ IsSmallInt(b) THEN FloatCmp(a.bits, F64OfSmallInt(b.neg, b.mag))
  ELSE IF a.k = "int" /\ IsSmallInt(a) /\ b.k = "float" /\ ~b.nan THEN FloatCmp(F64OfSmallInt(a.neg, a.mag), b.bits)
  ELSE 2

\* ------------------------------------------------------------------ rules
RulesNamed(R, n) == {i \in 1..Len(R) : R[i].name = n}
IsTypeRule(R, n) == \E i \in RulesNamed(R, n) : R[i].kind = "type"
IsGroupRule(R, n) == ~IsTypeRule(R, n) /\ \E i \in RulesNamed(R, n) : R[i].kind = "group"
FirstRule(R, n) == R[CHOOSE i \in RulesNamed(R, n) : \A j \in RulesNamed(R, n) : i <= j]
RECURSIVE CollectAlts(_,_,_), CollectGAlts(_,_,_)
\* all type-choice alternatives of the rules called n, in document order (= followed by /=)
CollectAlts(R, n, i) == IF i > Len(R) THEN <<>>
                        ELSE (IF R[i].name = n /\ R[i].kind = "type" THEN R[i].t.alts ELSE <<>>) \o CollectAlts(R, n, i+1)
CollectGAlts(R, n, i) == IF i > Len(R) THEN <<>>
                         ELSE (IF R[i].name = n /\ R[i].kind = "group" THEN << <<R[i].e>> >> ELSE <<>>) \o CollectGAlts(R, n, i+1)
RuleType(R, n) == [alts |-> CollectAlts(R, n, 1)]
RuleGroup(R, n) == [galts |-> CollectGAlts(R, n, 1)]
RuleParams(R, n) == FirstRule(R, n).params

\* ------------------------------------------------------------------ generic substitution
RECURSIVE SubT(_,_), Sub1(_,_), SubG(_,_), SubE(_,_), SubSeq1(_,_,_), SubEs(_,_,_), SubGAlts(_,_,_)
SubSeq1(xs, s, i) == IF i > Len(xs) THEN <<>> ELSE <<Sub1(xs[i], s)>> \o SubSeq1(xs, s, i+1)
SubT(t, s) == [alts |-> SubSeq1(t.alts, s, 1)]
Sub1(t, s) ==
  CASE t.k = "ref" -> IF t.n \in DOMAIN s /\ t.args = <<>> THEN s[t.n] ELSE [t EXCEPT !.args = SubSeq1(t.args, s, 1)]
    [] t.k = "paren" -> [t EXCEPT !.t = SubT(t.t, s)]
    [] t.k = "map" -> [t EXCEPT !.g = SubG(t.g, s)]
    [] t.k = "arr" -> [t EXCEPT !.g = SubG(t.g, s)]
    [] t.k = "enumg" -> [t EXCEPT !.g = SubG(t.g, s)]
    [] t.k = "unwrap" -> IF t.n \in DOMAIN s /\ t.args = <<>> /\ s[t.n].k = "ref"
                         THEN [t EXCEPT !.n = s[t.n].n, !.args = s[t.n].args] ELSE [t EXCEPT !.args = SubSeq1(t.args, s, 1)]
    [] t.k = "enumr" -> IF t.n \in DOMAIN s /\ t.args = <<>> /\ s[t.n].k = "ref"
                         THEN [t EXCEPT !.n = s[t.n].n, !.args = s[t.n].args] ELSE [t EXCEPT !.args = SubSeq1(t.args, s, 1)]
    [] t.k = "tag" -> [t EXCEPT !.t = SubT(t.t, s)]
    [] t.k = "range" -> [t EXCEPT !.lo = Sub1(t.lo, s), !.hi = Sub1(t.hi, s)]
    [] t.k = "ctl" -> [t EXCEPT !.t = Sub1(t.t, s), !.arg = Sub1(t.arg, s)]
    [] OTHER -> t
SubEs(es, s, i) == IF i > Len(es) THEN <<>> ELSE <<SubE(es[i], s)>> \o SubEs(es, s, i+1)
SubGAlts(gs, s, i) == IF i > Len(gs) THEN <<>> ELSE <<SubEs(gs[i], s, 1)>> \o SubGAlts(gs, s, i+1)
SubG(g, s) == [galts |-> SubGAlts(g.galts, s, 1)]
SubE(e, s) ==
  CASE e.k = "ent" -> [e EXCEPT !.t = SubT(e.t, s),
                                !.key = IF e.key.kk = "type" THEN [e.key EXCEPT !.t = Sub1(e.key.t, s)] ELSE e.key]
    [] e.k = "sub" -> [e EXCEPT !.g = SubG(e.g, s)]
    [] e.k = "name" -> IF e.n \in DOMAIN s /\ e.args = <<>>
                       THEN [k |-> "ent", lo |-> e.lo, hi |-> e.hi, key |-> [kk |-> "none"], t |-> [alts |-> <<s[e.n]>>]]
                       ELSE [e EXCEPT !.args = SubSeq1(e.args, s, 1)]
Sigma(params, args) == [p \in {params[i] : i \in 1..Len(params)} |->
                          args[CHOOSE i \in 1..Len(params) : params[i] = p]]
\* body of rule n instantiated with args (as a Type / Group)
InstType(R, n, args) == LET ps == RuleParams(R, n) IN
                        IF ps = <<>> \/ Len(ps) # Len(args) THEN RuleType(R, n) ELSE SubT(RuleType(R, n), Sigma(ps, args))
InstGroup(R, n, args) == LET ps == RuleParams(R, n) IN
                         IF ps = <<>> \/ Len(ps) # Len(args) THEN RuleGroup(R, n) ELSE SubG(RuleGroup(R, n), Sigma(ps, args))

\* ------------------------------------------------------------------ prelude (RFC 8610 Appendix D)
PreludeNames == {"any","uint","nint","int","bstr","bytes","tstr","text","float","float16","float32","float64",
                 "float16-32","float32-64","false","true","bool","nil","null","undefined","number",
                 "tdate","time","biguint","bignint","bigint","integer","unsigned","uri","b64url","b64legacy","regexp",
                 "mime-message","cbor-any","encoded-cbor","eb64url","eb64legacy","eb16","decfrac","bigfloat"}
Ref(n) == [k |-> "ref", n |-> n, args |-> <<>>]
T1(x) == [alts |-> <<x>>]
Tag(n, t) == [k |-> "tag", tagk |-> "lit", tn |-> NatOfSmall(n), t |-> T1(t)]
\* definitions that are choices / tags of other prelude names are data, exactly as Appendix D writes them
PreludeDef(n) ==
  CASE n = "int" -> [alts |-> <<Ref("uint"), Ref("nint")>>]
    [] n = "number" -> [alts |-> <<Ref("int"), Ref("float")>>]
    [] n = "bool" -> [alts |-> <<Ref("false"), Ref("true")>>]
    [] n = "text" -> T1(Ref("tstr"))
    [] n = "bytes" -> T1(Ref("bstr"))
    [] n = "null" -> T1(Ref("nil"))
    [] n = "float" -> [alts |-> <<Ref("float16"), Ref("float32"), Ref("float64")>>]
    [] n = "float16-32" -> [alts |-> <<Ref("float16"), Ref("float32")>>]
    [] n = "float32-64" -> [alts |-> <<Ref("float32"), Ref("float64")>>]
    [] n = "tdate" -> T1(Tag(0, Ref("tstr")))
    [] n = "time" -> T1(Tag(1, Ref("number")))
    [] n = "biguint" -> T1(Tag(2, Ref("bstr")))
    [] n = "bignint" -> T1(Tag(3, Ref("bstr")))
    [] n = "bigint" -> [alts |-> <<Ref("biguint"), Ref("bignint")>>]
    [] n = "integer" -> [alts |-> <<Ref("int"), Ref("bigint")>>]
    [] n = "unsigned" -> [alts |-> <<Ref("uint"), Ref("biguint")>>]
    [] n = "uri" -> T1(Tag(32, Ref("tstr")))
    [] n = "b64url" -> T1(Tag(33, Ref("tstr")))
    [] n = "b64legacy" -> T1(Tag(34, Ref("tstr")))
    [] n = "regexp" -> T1(Tag(35, Ref("tstr")))
    [] n = "mime-message" -> T1(Tag(36, Ref("tstr")))
    [] n = "cbor-any" -> T1(Tag(55799, Ref("any")))
    [] n = "encoded-cbor" -> T1(Tag(24, Ref("bstr")))
    [] n = "eb64url" -> T1(Tag(21, Ref("any")))
    [] n = "eb64legacy" -> T1(Tag(22, Ref("any")))
    [] n = "eb16" -> T1(Tag(23, Ref("any")))
    [] OTHER -> [alts |-> <<>>]
PreludeBase == {"any","uint","nint","bstr","tstr","float16","float32","float64","false","true","nil","undefined"}
\* an integral float stands for an integer only in JSON and only in the lenient reading
AsInt(cx, v) == IF v.k = "int" THEN [ok |-> TRUE, neg |-> v.neg, mag |-> v.mag]
                ELSE IF v.k = "float" /\ cx.fmt = "json" /\ cx.ifl /\ ~v.nan /\ FIntegral(v.bits) /\ ~FAsInt(v.bits).big
                     THEN [ok |-> TRUE, neg |-> FAsInt(v.bits).neg, mag |-> FAsInt(v.bits).mag]
                ELSE [ok |-> FALSE]
Base(cx, n, v) ==
  CASE n = "any" -> TRUE
    [] n = "uint" -> LET i == AsInt(cx, v) IN i.ok /\ ~i.neg
    [] n = "nint" -> LET i == AsInt(cx, v) IN i.ok /\ i.neg
    [] n = "bstr" -> v.k = "bytes"
    [] n = "tstr" -> v.k = "text"
    \* the data model has one float kind; width is an encoding detail (C02: verdict independent of float width)
    [] n \in {"float16","float32","float64"} -> v.k = "float" \/ (v.k = "int" /\ cx.fmt = "json" /\ cx.ifl)
    [] n = "false" -> v.k = "bool" /\ ~v.b
    [] n = "true" -> v.k = "bool" /\ v.b
    [] n = "nil" -> v.k = "null"
    [] n = "undefined" -> v.k = "undefined"
    [] OTHER -> FALSE

\* ------------------------------------------------------------------ literals, ranges, controls
\* a deviation site modelled loosely: under flag d the implementation's answer at this site is not
\* determined by the specification (reading cx.dv), otherwise the RFC answer x applies
Loose(cx, d, x) == IF d \in cx.dev THEN cx.dv ELSE x
LitMatch(cx, l, v) ==
  IF l.k = "text" /\ v.k = "map" /\ cx.fmt = "json" THEN Loose(cx, "JsonTextLiteralVsObject", FALSE)
  ELSE IF l.k = "int" THEN LET i == AsInt(cx, v) IN i.ok /\ i.neg = l.neg /\ i.mag = l.mag
  ELSE IF l.k = "float" THEN
       (v.k = "float" /\ VEq(l, v))
       \/ (v.k = "int" /\ cx.fmt = "json" /\ cx.ifl /\ ~l.nan /\ FIntegral(l.bits) /\ ~FAsInt(l.bits).big
           /\ FAsInt(l.bits).neg = v.neg /\ FAsInt(l.bits).mag = v.mag)
  ELSE VEq(l, v)

\* resolve a range bound / control argument to a literal value through non-generic single-literal rules
RECURSIVE LitOf(_,_,_)
LitOf(R, t, fuel) ==
  IF t.k = "lit" THEN [ok |-> TRUE, v |-> t.v]
  ELSE IF t.k = "paren" /\ Len(t.t.alts) = 1 /\ fuel > 0 THEN LitOf(R, t.t.alts[1], fuel - 1)
  ELSE IF t.k = "ref" /\ t.args = <<>> /\ fuel > 0 /\ IsTypeRule(R, t.n) /\ Len(RuleType(R, t.n).alts) = 1
       THEN LitOf(R, RuleType(R, t.n).alts[1], fuel - 1)
  ELSE [ok |-> FALSE]

InRange(cx, R, t, v) ==
  LET lo == LitOf(R, t.lo, 4)  hi == LitOf(R, t.hi, 4) IN
  lo.ok /\ hi.ok /\
  IF lo.v.k = "int" /\ hi.v.k = "int" THEN
     LET i == AsInt(cx, v) IN
     i.ok /\ IntCmp(lo.v.neg, lo.v.mag, i.neg, i.mag) <= 0
          /\ (LET c == IntCmp(i.neg, i.mag, hi.v.neg, hi.v.mag) IN IF t.incl THEN c <= 0 ELSE c < 0)
  ELSE IF lo.v.k = "float" /\ hi.v.k = "float" THEN
     \* JSON cannot tell 1 from 1.0: in the lenient reading an integer is compared as the float it denotes
     LET fb == IF v.k = "float" /\ ~v.nan THEN [ok |-> TRUE, bits |-> v.bits]
               ELSE IF v.k = "int" /\ cx.fmt = "json" /\ cx.ifl /\ IsSmallInt(v) THEN [ok |-> TRUE, bits |-> F64OfSmallInt(v.neg, v.mag)]
               ELSE [ok |-> FALSE]
     IN IF ~fb.ok THEN (v.k = "int" /\ cx.fmt = "json" /\ cx.ifl /\ ~IsSmallInt(v))
        ELSE FloatCmp(lo.v.bits, fb.bits) <= 0
             /\ (LET c == FloatCmp(fb.bits, hi.v.bits) IN IF t.incl THEN c <= 0 ELSE c < 0)
  ELSE FALSE

\* .size n: text/bytes of exactly... RFC 8610 3.8.1: for strings the length in bytes; for uint "up to n bytes" (< 256^n)
SizeOk(cx, a, v) ==
  a.k = "int" /\ ~a.neg /\
  CASE v.k = "text" -> NatOfSmall(Utf8Len(v.cp)) = a.mag
    [] v.k = "bytes" -> NatOfSmall(Len(v.bs)) = a.mag
    [] v.k = "int" -> ~v.neg /\ (LET n == Small(a.mag) IN n = -1 \/ n >= 8 \/ (IF v.mag = <<0>> THEN TRUE ELSE Len(v.mag) <= n))
    [] OTHER -> FALSE
\* .size (lo..hi) for strings
SizeRangeOk(cx, R, rng, v) ==
  LET n == IF v.k = "text" THEN Utf8Len(v.cp) ELSE IF v.k = "bytes" THEN Len(v.bs) ELSE -1 IN
  n >= 0 /\ InRange(cx, R, rng, [k |-> "int", neg |-> FALSE, mag |-> NatOfSmall(n)])

\* ------------------------------------------------------------------ matching
RECURSIVE MT(_,_,_,_,_), M1(_,_,_,_,_), Ctl(_,_,_,_,_),
          SeqGroup(_,_,_,_,_,_,_), SeqAlt(_,_,_,_,_,_,_), SeqEntry(_,_,_,_,_,_), SeqIter(_,_,_,_,_,_,_), SeqOnce(_,_,_,_,_,_),
          MapGroup(_,_,_,_,_), MapSeq(_,_,_,_,_,_), MapEnt(_,_,_,_,_), MapRep(_,_,_,_,_,_,_,_),
          EnumAlts(_,_,_,_), EnumEntries(_,_,_,_,_)

\* group an unwrap target denotes: ~name where name is a rule whose (single) alternative is an array or a map
\* names and parentheses are transparent (C08): the target is reached through single-alternative aliases and redundant parentheses
RECURSIVE UnwrapResolve(_,_,_)
UnwrapResolve(R, t1, fuel) ==
  IF t1.k \in {"arr", "map", "tag"} THEN t1
  ELSE IF fuel = 0 THEN [k |-> "none"]
  ELSE IF t1.k = "paren" /\ Len(t1.t.alts) = 1 THEN UnwrapResolve(R, t1.t.alts[1], fuel - 1)
  ELSE IF t1.k = "ref" /\ IsTypeRule(R, t1.n)
       THEN (LET ty == InstType(R, t1.n, t1.args) IN IF Len(ty.alts) = 1 THEN UnwrapResolve(R, ty.alts[1], fuel - 1) ELSE [k |-> "none"])
  ELSE [k |-> "none"]
UnwrapTarget(R, t) ==
  LET ty == InstType(R, t.n, t.args) IN
  IF IsTypeRule(R, t.n) /\ Len(ty.alts) = 1 THEN UnwrapResolve(R, ty.alts[1], 5) ELSE [k |-> "none"]

\* the choice a group denotes under & : the types of its entries (recursively through groups)
EnumEntries(R, es, i, fuel, acc) ==
  IF i > Len(es) THEN acc
  ELSE LET e == es[i] IN
       EnumEntries(R, es, i+1, fuel,
         acc \o (CASE e.k = "ent" -> e.t.alts
                   [] e.k = "sub" -> EnumAlts(R, e.g, 1, fuel)
                   [] e.k = "name" -> IF IsGroupRule(R, e.n) /\ fuel > 0 THEN EnumAlts(R, InstGroup(R, e.n, e.args), 1, fuel - 1)
                                      ELSE <<[k |-> "ref", n |-> e.n, args |-> e.args]>>))
EnumAlts(R, g, j, fuel) == IF j > Len(g.galts) THEN <<>> ELSE EnumEntries(R, g.galts[j], 1, fuel, <<>>) \o EnumAlts(R, g, j+1, fuel)

TagNumOk(t, v) == t.tagk = "any" \/ (t.tagk = "lit" /\ t.tn = v.tn)

M1(cx, R, t, v, vis) ==
  CASE t.k = "lit" -> LitMatch(cx, t.v, v)
    [] t.k = "any" -> TRUE
    [] t.k = "paren" -> MT(cx, R, t.t, v, vis)
    [] t.k = "ref" ->
         IF RulesNamed(R, t.n) # {} THEN
            IF IsTypeRule(R, t.n) THEN
               IF t.n \in vis THEN FALSE      \* least fixed point of a reference cycle that consumes nothing
               ELSE MT(cx, R, InstType(R, t.n, t.args), v, vis \cup {t.n})
            ELSE FALSE
         ELSE IF t.n \in PreludeBase THEN Base(cx, t.n, v)
         ELSE IF t.n \in PreludeNames THEN MT(cx, R, PreludeDef(t.n), v, vis)
         ELSE FALSE
    [] t.k = "arr" -> v.k = "arr" /\ SeqGroup(cx, R, t.g, 1, v.items, 1, {}) = Len(v.items) + 1
    [] t.k = "map" -> v.k = "map" /\ {} \in MapGroup(cx, R, t.g, v.pairs, {1..Len(v.pairs)})
    [] t.k = "unwrap" ->
         \* in type position ~ is meaningful for a tagged type: the content type
         LET u == UnwrapTarget(R, t) IN
         IF u.k = "tag" THEN MT(cx, R, u.t, v, vis)
         ELSE IF u.k = "none" /\ RulesNamed(R, t.n) = {} /\ t.n \in PreludeNames /\ Len(PreludeDef(t.n).alts) = 1
                 /\ PreludeDef(t.n).alts[1].k = "tag" THEN MT(cx, R, PreludeDef(t.n).alts[1].t, v, vis)
         ELSE FALSE
    [] t.k = "enumg" -> (LET as == EnumAlts(R, t.g, 1, 3) IN \E i \in 1..Len(as) : M1(cx, R, as[i], v, vis))
    [] t.k = "enumr" -> IsGroupRule(R, t.n) /\
                        (LET as == EnumAlts(R, InstGroup(R, t.n, t.args), 1, 3) IN \E i \in 1..Len(as) : M1(cx, R, as[i], v, vis))
    [] t.k = "tag" -> v.k = "tag" /\ TagNumOk(t, v) /\ MT(cx, R, t.t, v.c, {})
    [] t.k = "major" ->
         (CASE t.mt = 0 -> v.k = "int" /\ ~v.neg /\ (t.has => v.mag = t.num)
            [] t.mt = 1 -> v.k = "int" /\ v.neg /\ (t.has => v.mag = t.num)
            [] t.mt = 2 -> v.k = "bytes" /\ ~t.has
            [] t.mt = 3 -> v.k = "text" /\ ~t.has
            [] t.mt = 4 -> v.k = "arr" /\ ~t.has
            [] t.mt = 5 -> v.k = "map" /\ ~t.has
            [] t.mt = 6 -> v.k = "tag" /\ (t.has => v.tn = t.num)
            [] t.mt = 7 -> IF ~t.has THEN v.k \in {"bool","null","undefined","simple","float"}
                           ELSE LET n == Small(t.num) IN
                                CASE n = 20 -> v.k = "bool" /\ ~v.b
                                  [] n = 21 -> v.k = "bool" /\ v.b
                                  [] n = 22 -> v.k = "null"
                                  [] n = 23 -> v.k = "undefined"
                                  [] n \in {25,26,27} -> v.k = "float"
                                  [] OTHER -> v.k = "simple" /\ v.sn = n
            [] OTHER -> FALSE)
    [] t.k = "range" -> InRange(cx, R, t, v)
    [] t.k = "ctl" -> Ctl(cx, R, t, v, vis)
    [] OTHER -> FALSE

MT(cx, R, t, v, vis) == \E i \in 1..Len(t.alts) : M1(cx, R, t.alts[i], v, vis)

Ctl(cx, R, t, v, vis) ==
  CASE t.op \in {"and", "within"} ->
         \* deviation (loose): both operands are map types - the second map is validated with the keys the first one consumed
         IF t.t.k = "map" /\ t.arg.k = "map" /\ "AndWithinMapOperands" \in cx.dev THEN cx.dv
         ELSE M1(cx, R, t.t, v, vis) /\ M1(cx, R, t.arg, v, vis)
    [] t.op = "default" -> M1(cx, R, t.t, v, vis)
    [] t.op = "size" ->
         M1(cx, R, t.t, v, vis) /\
         (LET a == LitOf(R, t.arg, 4) IN
          IF a.ok THEN SizeOk(cx, a.v, v)
          ELSE IF t.arg.k = "paren" /\ Len(t.arg.t.alts) = 1 /\ t.arg.t.alts[1].k = "range" THEN SizeRangeOk(cx, R, t.arg.t.alts[1], v)
          ELSE IF t.arg.k = "range" THEN SizeRangeOk(cx, R, t.arg, v)
          ELSE FALSE)
    [] t.op \in {"lt","le","gt","ge"} ->
         M1(cx, R, t.t, v, vis) /\
         (LET a == LitOf(R, t.arg, 4) IN
          a.ok /\ (LET vv == IF a.v.k = "int" /\ AsInt(cx, v).ok THEN [k |-> "int", neg |-> AsInt(cx, v).neg, mag |-> AsInt(cx, v).mag] ELSE v
                       c == NumCmp(vv, a.v) IN
                   c # 2 /\ (CASE t.op = "lt" -> c < 0 [] t.op = "le" -> c <= 0 [] t.op = "gt" -> c > 0 [] t.op = "ge" -> c >= 0)))
    \* RFC 9165 2.2 / 2.1: both operands denote single values (literals, possibly through aliases / parentheses);
    \* the control denotes the single value computed from them, of the kind of the LEFT operand
    [] t.op = "cat" ->
         (LET a == LitOf(R, t.t, 4)  b == LitOf(R, t.arg, 4) IN
          a.ok /\ b.ok /\ a.v.k \in {"text", "bytes"} /\ b.v.k \in {"text", "bytes"} /\
          IF a.v.k = "text" THEN
             \* text target: the controller's bytes must themselves be UTF-8; the fragment only generates text controllers here
             b.v.k = "text" /\ LitMatch(cx, [k |-> "text", cp |-> a.v.cp \o b.v.cp], v)
          ELSE v.k = "bytes" /\ v.bs = a.v.bs \o (IF b.v.k = "bytes" THEN b.v.bs ELSE Utf8Enc(b.v.cp)))
    [] t.op = "plus" ->
         (LET a == LitOf(R, t.t, 4)  b == LitOf(R, t.arg, 4) IN
          a.ok /\ b.ok /\ a.v.k = "int" /\ b.v.k = "int" /\ Small(a.v.mag) # -1 /\ Small(b.v.mag) # -1 /\
          LET sv(x) == IF x.neg THEN (0 - 1) - Small(x.mag) ELSE Small(x.mag)
              s == sv(a.v) + sv(b.v)
              r == IF s < 0 THEN [k |-> "int", neg |-> TRUE, mag |-> NatOfSmall((0 - 1) - s)]
                   ELSE [k |-> "int", neg |-> FALSE, mag |-> NatOfSmall(s)]
          IN LitMatch(cx, r, v))
    [] t.op = "eq" -> M1(cx, R, t.t, v, vis) /\ (LET a == LitOf(R, t.arg, 4) IN a.ok /\ LitMatch(cx, a.v, v))
    [] t.op = "ne" -> M1(cx, R, t.t, v, vis) /\ (LET a == LitOf(R, t.arg, 4) IN a.ok /\ ~LitMatch(cx, a.v, v))
    [] OTHER -> FALSE

\* ---- arrays: PEG; every function returns the next cursor or -1.  gv: set of <<group name, cursor>> being expanded
EntryGroup(R, e) == IF e.k = "sub" THEN e.g ELSE InstGroup(R, e.n, e.args)
IsGroupEntry(R, e) == e.k = "sub" \/ (e.k = "name" /\ IsGroupRule(R, e.n))
\* ~name inside an array: splice the group of the array/map type name denotes
SpliceOf(R, e) ==
  IF e.k = "ent" /\ Len(e.t.alts) = 1 /\ e.t.alts[1].k = "unwrap"
  THEN (LET u == UnwrapTarget(R, e.t.alts[1]) IN IF u.k \in {"arr","map"} THEN [ok |-> TRUE, g |-> u.g] ELSE [ok |-> FALSE])
  ELSE [ok |-> FALSE]
LeafType(e) == IF e.k = "name" THEN [alts |-> <<[k |-> "ref", n |-> e.n, args |-> e.args]>>] ELSE e.t

SeqOnce(cx, R, e, xs, c, gv) ==
  IF IsGroupEntry(R, e) THEN
     IF e.k = "name" /\ <<e.n, c>> \in gv THEN -1
     ELSE SeqGroup(cx, R, EntryGroup(R, e), 1, xs, c, IF e.k = "name" THEN gv \cup {<<e.n, c>>} ELSE gv)
  ELSE IF SpliceOf(R, e).ok THEN SeqGroup(cx, R, SpliceOf(R, e).g, 1, xs, c, gv)
  ELSE IF c > Len(xs) THEN -1
  ELSE IF MT(cx, R, LeafType(e), xs[c], {}) THEN c + 1 ELSE -1
\* greedy bounded iteration; returns <<cursor, count>>
SeqIter(cx, R, e, xs, c, n, gv) ==
  IF e.hi # -1 /\ n >= e.hi THEN <<c, n>>
  ELSE LET r == SeqOnce(cx, R, e, xs, c, gv) IN
       IF r = -1 THEN <<c, n>>
       ELSE IF r = c THEN <<c, IF n + 1 > e.lo THEN n + 1 ELSE e.lo>>     \* zero-width success: satisfied, stop
       ELSE SeqIter(cx, R, e, xs, r, n + 1, gv)
SeqEntry(cx, R, e, xs, c, gv) ==
  LET r == SeqIter(cx, R, e, xs, c, 0, gv) IN IF r[2] >= e.lo THEN r[1] ELSE -1
SeqAlt(cx, R, es, i, xs, c, gv) ==
  IF i > Len(es) THEN c
  ELSE LET r == SeqEntry(cx, R, es[i], xs, c, gv) IN IF r = -1 THEN -1 ELSE SeqAlt(cx, R, es, i + 1, xs, r, gv)
SeqGroup(cx, R, g, j, xs, c, gv) ==
  IF j > Len(g.galts) THEN -1
  ELSE LET r == SeqAlt(cx, R, g.galts[j], 1, xs, c, gv) IN IF r # -1 THEN r ELSE SeqGroup(cx, R, g, j + 1, xs, c, gv)

\* ---- maps: declarative.  Each operator maps a SET of sets of still-unmatched pair indices to the SET of possible remainders.
KeyType(e) ==
  CASE e.key.kk = "bare" -> [k |-> "lit", v |-> [k |-> "text", cp |-> e.key.cp]]
    [] e.key.kk = "val" -> [k |-> "lit", v |-> e.key.v]
    [] e.key.kk = "type" -> e.key.t
\* RFC 8610 3.5.4: ':' and '^ =>' cut, a plain '=>' does not.  Deviation JsonArrowLiteralKeyCuts: the JSON
\* validator treats '"literal" =>' as if it were cut (no fall-through to a later member when the value fails).
IsCut(cx, e) == e.key.kk \in {"bare", "val"} \/ (e.key.kk = "type" /\ e.key.cut)
                \/ (e.key.kk = "type" /\ e.key.t.k = "lit" /\ cx.fmt = "json" /\ "JsonArrowLiteralKeyCuts" \in cx.dev)
\* RFC 8610 3.5.4: a cut commits to its entry as soon as the key matches.  An optional GROUP ('? (k: T)', '? g') whose cut member
\* finds its key among the remaining pairs can therefore not be skipped: either it matches or the map does not.
RECURSIVE CutBlocksF(_,_,_,_,_,_)
CutBlocksF(cx, R, g, ps, left, fuel) ==
  \E j \in 1..Len(g.galts) : \E i \in 1..Len(g.galts[j]) :
     LET x == g.galts[j][i] IN
     IF x.k = "ent" THEN x.key.kk # "none" /\ IsCut(cx, x) /\ \E p \in left : M1(cx, R, KeyType(x), ps[p].key, {})
     ELSE IF fuel = 0 THEN FALSE
     ELSE IF x.k = "sub" THEN CutBlocksF(cx, R, x.g, ps, left, fuel - 1)
     ELSE IF x.k = "name" /\ IsGroupRule(R, x.n) THEN CutBlocksF(cx, R, InstGroup(R, x.n, x.args), ps, left, fuel - 1)
     ELSE FALSE
CutBlocks(cx, R, g, ps, left) == CutBlocksF(cx, R, g, ps, left, 3)
MapGroup(cx, R, g, ps, lefts) == UNION {MapSeq(cx, R, g.galts[j], 1, ps, lefts) : j \in 1..Len(g.galts)}
MapSeq(cx, R, es, i, ps, lefts) ==
  IF i > Len(es) \/ lefts = {} THEN lefts
  ELSE MapSeq(cx, R, es, i + 1, ps, UNION {MapEnt(cx, R, es[i], ps, left) : left \in lefts})
MapEnt(cx, R, e, ps, left) ==
  IF e.k = "name" /\ IsGroupRule(R, e.n) /\ Len(RuleGroup(R, e.n).galts) > 1
     /\ "GroupAlternatesFirstWins" \in cx.dev
  THEN \* loose deviation: a group name with //= alternates inside a map (first alternate without errors wins)
       IF cx.dv THEN {left \ S : S \in SUBSET left} ELSE {}
  ELSE IF IsGroupEntry(R, e) THEN MapRep(cx, R, e, EntryGroup(R, e), ps, {left}, 0, IF e.lo = 0 /\ ~CutBlocks(cx, R, EntryGroup(R, e), ps, left) THEN {left} ELSE {})
  ELSE IF SpliceOf(R, e).ok THEN MapRep(cx, R, e, SpliceOf(R, e).g, ps, {left}, 0, IF e.lo = 0 /\ ~CutBlocks(cx, R, SpliceOf(R, e).g, ps, left) THEN {left} ELSE {})
  ELSE IF e.k = "name" \/ e.key.kk = "none" THEN {}      \* a keyless entry cannot match a map pair (outside the fragment)
  ELSE
    LET kt == KeyType(e)
        cand == {p \in left : M1(cx, R, kt, ps[p].key, {})}
        good == {p \in cand : MT(cx, R, e.t, ps[p].val, {})}
        okN(S) == Cardinality(S) >= e.lo /\ (e.hi = -1 \/ Cardinality(S) <= e.hi)
        FirstN(S, m) == {p \in S : Cardinality({q \in S : q <= p}) <= m}
        cap(S) == IF e.hi = -1 \/ Cardinality(S) <= e.hi THEN Cardinality(S) ELSE e.hi
    IN IF IsCut(cx, e) THEN
         \* cut: the pick is made on the key alone (as many as the upper bound allows) and every picked value must match
         LET picks == IF cx.md = "E" THEN {S \in SUBSET cand : Cardinality(S) = cap(cand)} ELSE {FirstN(cand, cap(cand))}
         IN {left \ S : S \in {S \in picks : S \subseteq good /\ Cardinality(S) >= e.lo}}
       ELSE IF cx.md = "E" THEN {left \ S : S \in {S \in SUBSET good : okN(S)}}
       ELSE LET S == FirstN(good, cap(good)) IN IF Cardinality(S) >= e.lo THEN {left \ S} ELSE {}
\* iterate a group n times; frontier = remainders after exactly n iterations; acc = union of admissible results
MapRep(cx, R, e, g, ps, frontier, n, acc) ==
  IF frontier = {} \/ (e.hi # -1 /\ n >= e.hi) \/ n > 8 THEN acc
  ELSE LET nxt == MapGroup(cx, R, g, ps, frontier)
           new == IF n + 1 >= e.lo THEN nxt \ acc ELSE nxt
       IN IF n + 1 >= e.lo /\ new = {} THEN acc
          ELSE MapRep(cx, R, e, g, ps, new, n + 1, IF n + 1 >= e.lo THEN acc \cup nxt ELSE acc)

\* ------------------------------------------------------------------ top level
\* the first rule defines the data item (RFC 8610 section 2: "the first rule ... is the root")
Root(R) == R[1]
Accepts(cx, R, v) == Root(R).kind = "type" /\ MT(cx, R, InstType(R, Root(R).name, <<>>), v, {Root(R).name})
LooseFlags == {"JsonTextLiteralVsObject", "GroupAlternatesFirstWins", "AndWithinMapOperands"}
Readings(fmt, dev) == {[md |-> m, ifl |-> i, fmt |-> fmt, dev |-> dev, dv |-> d] :
                          m \in {"E", "G"}, i \in (IF fmt = "json" THEN BOOLEAN ELSE {FALSE}),
                          d \in (IF dev \cap LooseFlags # {} THEN BOOLEAN ELSE {FALSE})}
\* "T" accepted under every reading, "F" rejected under every reading, "E" the property does not determine the verdict
\* Deviation UndefAsNull (C11 finding): the decoder hands 'undefined' to the validator as 'null'
RECURSIVE NormV(_,_), NormSeq(_,_,_), NormPairs(_,_,_)
NormSeq(dev, xs, i) == IF i > Len(xs) THEN <<>> ELSE <<NormV(dev, xs[i])>> \o NormSeq(dev, xs, i+1)
NormPairs(dev, ps, i) == IF i > Len(ps) THEN <<>> ELSE <<[key |-> NormV(dev, ps[i].key), val |-> NormV(dev, ps[i].val)]>> \o NormPairs(dev, ps, i+1)
NormV(dev, v) ==
  IF "UndefAsNull" \notin dev THEN v
  ELSE CASE v.k = "undefined" -> [k |-> "null"]
         [] v.k = "arr" -> [k |-> "arr", items |-> NormSeq(dev, v.items, 1)]
         [] v.k = "map" -> [k |-> "map", pairs |-> NormPairs(dev, v.pairs, 1)]
         [] v.k = "tag" -> [v EXCEPT !.c = NormV(dev, v.c)]
         [] OTHER -> v
Expected(fmt, dev, R, v0) ==
  LET v == NormV(dev, v0)
      vs == {Accepts(cx, R, v) : cx \in Readings(fmt, dev)} IN
  IF vs = {TRUE} THEN "T" ELSE IF vs = {FALSE} THEN "F" ELSE "E"
=============================================================================
