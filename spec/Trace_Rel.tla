----------------------------- MODULE Trace_Rel -----------------------------
(* Trace validation of relation events: each event records two (or more) runs of
   the real validators on cases that the harness claims are related.  The trace
   specification re-derives relatedness (Relations.tla) and requires the stated
   equation between the recorded verdicts.  A mismatch that is explained by a
   listed deviation of one side from the strict oracle is "known:<flag>".        *)
EXTENDS Relations, Json, IOUtils
CONSTANT KnownDev
Rec == ndJsonDeserialize(IOEnv.TRACE)
VARIABLE l
Str(b) == IF b THEN "T" ELSE "F"
\* does a listed deviation explain that run (fmt, R, v) returned ok although the strict oracle says otherwise?
Deviates(fmt, R, v, ok) ==
  LET x == Expected(fmt, {}, R, v) IN x # "E" /\ x # Str(ok)
Explained(fmt, R, v, ok) ==
  Deviates(fmt, R, v, ok) /\ KnownDev # {} /\ Expected(fmt, KnownDev, R, v) \in {Str(ok), "E"}
Flag(fmt, R, v, ok) == IF \E d \in KnownDev : Expected(fmt, {d}, R, v) \in {Str(ok), "E"}
                       THEN CHOOSE d \in KnownDev : Expected(fmt, {d}, R, v) \in {Str(ok), "E"} ELSE "*"
Judge(e) ==
  CASE e.ev = "JsonCbor" ->
         IF ~(JsonModel(e.val) /\ SharedSchema(e.rules)) THEN "unrelated"
         ELSE IF e.okj = e.okc THEN "ok"
         \* JSON cannot distinguish 2 from 2.0 (C01): when the two int/float readings of the JSON side differ, the pair is not determined
         ELSE IF \E m \in {"E", "G"} :
                   Accepts([md |-> m, ifl |-> TRUE, fmt |-> "json", dev |-> {}, dv |-> FALSE], e.rules, e.val)
                   # Accepts([md |-> m, ifl |-> FALSE, fmt |-> "json", dev |-> {}, dv |-> FALSE], e.rules, e.val) THEN "either"
         ELSE IF Explained("json", e.rules, e.val, e.okj) THEN "known:" \o Flag("json", e.rules, e.val, e.okj)
         ELSE IF Explained("cbor", e.rules, e.val, e.okc) THEN "known:" \o Flag("cbor", e.rules, e.val, e.okc)
         ELSE "bad"
    [] e.ev = "PermDoc" ->
         IF ~PermEq(e.val, e.val2) THEN "unrelated"
         ELSE IF e.ok = e.ok2 THEN "ok"
         ELSE IF Explained(e.fmt, e.rules, e.val, e.ok) THEN "known:" \o Flag(e.fmt, e.rules, e.val, e.ok)
         ELSE IF Explained(e.fmt, e.rules, e.val2, e.ok2) THEN "known:" \o Flag(e.fmt, e.rules, e.val2, e.ok2)
         ELSE "bad"
    [] e.ev = "PermSchema" ->
         IF ~MPermSchema(e.rules, e.rules2) THEN "unrelated"
         ELSE IF e.ok = e.ok2 THEN "ok"
         ELSE IF Explained(e.fmt, e.rules, e.val, e.ok) THEN "known:" \o Flag(e.fmt, e.rules, e.val, e.ok)
         ELSE IF Explained(e.fmt, e.rules2, e.val, e.ok2) THEN "known:" \o Flag(e.fmt, e.rules2, e.val, e.ok2)
         ELSE "bad"
    [] e.ev = "Ident" ->
         \* runs: one per schema of the identity instance, all on the same wrapped document
         LET ss == IdentSchemas(e.kind, e.ctx, e.a, IF e.kind = "prelude" /\ e.a.n \in PreludeBase THEN PreludeBaseDef(e.a.n) ELSE e.b)
             oks == [i \in 1..Len(e.runs) |-> e.runs[i].ok]
             w == WrapV(e.ctx, e.val)
         IN IF Len(ss) # Len(e.runs) \/ \E i \in 1..Len(ss) : ss[i] # e.runs[i].rules THEN "unrelated"
            ELSE IF IdentHolds(e.kind, oks, e.a, e.b, e.val) THEN "ok"
            ELSE IF \E i \in 1..Len(ss) : Explained(e.fmt, ss[i], w, oks[i])
                 THEN "known:" \o Flag(e.fmt, ss[CHOOSE i \in 1..Len(ss) : Explained(e.fmt, ss[i], w, oks[i])], w,
                                        oks[CHOOSE i \in 1..Len(ss) : Explained(e.fmt, ss[i], w, oks[i])])
            ELSE IF e.fmt = "json" /\ \E i \in 1..Len(ss) : Expected("json", {}, ss[i], w) = "E" THEN "either"
            ELSE "bad"
    [] e.ev = "Occ" ->
         IF OccBounds(e.sp1) # OccBounds(e.sp2) THEN "unrelated"
         ELSE IF e.ok = e.ok2 THEN "ok" ELSE "bad"
    [] OTHER -> "unrelated"
Init == l = 1
Next == /\ l <= Len(Rec)
        /\ LET v == Judge(Rec[l]) IN
             IF v = "ok" THEN TRUE ELSE PrintT("V " \o ToJson([l |-> l, v |-> v]))
        /\ l' = l + 1
Spec == Init /\ [][Next]_l
Consumed == IF TLCGet("stats").diameter - 1 = Len(Rec) THEN TRUE
            ELSE PrintT("V " \o ToJson([l |-> TLCGet("stats").diameter, v |-> "unconsumed"]))
=============================================================================
