----------------------------- MODULE DocSession -----------------------------
(* C06 / C16: a document session as a state machine.  The abstract state is the current text,
   the current AST (as projected from the crate's AST: rules with names, sockets, kinds,
   assignment operators, generic parameters, the full nesting, literal kinds and values, cut and
   unwrap markers, occurrence bounds, tag numbers) and the multiset of comments attached to it.
   Actions: Parse (text -> ast), Format (ast -> text).  The properties are invariants over the
   history of one session D -Parse-> A1 -Format-> T1 -Parse-> A2 -Format-> T2.                      *)
EXTENDS Integers, Sequences, FiniteSets, TLC

VARIABLES phase,      \* "text" | "ast" | "failed"
          asts,       \* sequence of ASTs obtained so far in this session
          texts,      \* sequence of texts produced by Format so far
          cmts        \* sequence of comment multisets (as sequences of strings) attached to the ASTs
vars == <<phase, asts, texts, cmts>>

Init0 == phase = "text" /\ asts = <<>> /\ texts = <<>> /\ cmts = <<>>
\* the parser returned (ok, ast, comments) for the current text
Parse(ok, ast, cs) ==
  /\ phase = "text"
  /\ IF ok THEN phase' = "ast" /\ asts' = Append(asts, ast) /\ cmts' = Append(cmts, cs)
           ELSE phase' = "failed" /\ UNCHANGED <<asts, cmts>>
  /\ UNCHANGED texts
\* the printer returned text t for the current ast
Format(t) ==
  /\ phase = "ast"
  /\ phase' = "text" /\ texts' = Append(texts, t)
  /\ UNCHANGED <<asts, cmts>>

\* ---- multisets of strings as sequences
Count(s, x) == Cardinality({i \in 1..Len(s) : s[i] = x})
Elems(s) == {s[i] : i \in 1..Len(s)}
MSub(a, b) == \A x \in Elems(a) : Count(a, x) <= Count(b, x)
MEq(a, b) == MSub(a, b) /\ MSub(b, a)

\* ---- invariants of a session
\* C06: formatting preserves the meaning: the text produced from A1 is accepted and parses to A1 again
Reparses == phase # "failed" \/ Len(texts) = 0
MeaningPreserved == Len(asts) >= 2 => asts[2] = asts[1]
\* C06: idempotence: displaying the second AST reproduces the same text
Idempotent == Len(texts) >= 2 => texts[2] = texts[1]
\* C16: every comment attached to A1 is emitted exactly once as a comment: it is attached again, once, after re-parsing
CommentsSurvive == Len(cmts) >= 2 => MEq(cmts[1], cmts[2])
=============================================================================
