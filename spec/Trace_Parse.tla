----------------------------- MODULE Trace_Parse -----------------------------
(* Trace validation of parser calls for C12:
   "Dup"   {defs, err}            the document is the rendering of the definition sequence defs; the
                                  RuleTable machine is driven one Define per rule (RunDefs) and must end in
                                  exactly the recorded outcome (err.at = 0: accepted).
   "Undef" {rules, socks, ok, name}  rules is the AST the real parser produced (projected), socks the socket
                                  names occurring in it; the checked entry point must succeed iff
                                  Undefined(rules, socks) = {} and a reported name must be undefined.      *)
EXTENDS RuleTable, Json, IOUtils
Rec == ndJsonDeserialize(IOEnv.TRACE)
VARIABLE l
SetOf(s) == {s[i] : i \in 1..Len(s)}
Judge(e) ==
  CASE e.ev = "Dup" ->
         LET st == RunDefs(RT0, e.defs, 1) IN
         IF st.err = [at |-> e.err.at, name |-> e.err.name] THEN "ok"
         ELSE IF st.err = NoErr THEN "bad:accept-expected" ELSE "bad:reject-expected"
    [] e.ev = "Undef" ->
         LET u == Undefined(e.rules, SetOf(e.socks)) IN
         IF e.ok THEN (IF u = {} THEN "ok" ELSE "bad:undefined-accepted")
         ELSE IF u = {} THEN "bad:defined-rejected"
         ELSE IF e.name \in u THEN "ok" ELSE "bad:wrong-name"
    [] OTHER -> "unrelated"
Init == l = 1
Next == /\ l <= Len(Rec)
        /\ LET v == Judge(Rec[l]) IN
             IF v = "ok" THEN TRUE ELSE PrintT("V " \o ToJson([l |-> l, v |-> v]))
        /\ l' = l + 1
Spec == Init /\ [][Next]_l
Consumed == IF TLCGet("stats").diameter - 1 = Len(Rec) THEN TRUE
            ELSE PrintT("V " \o ToJson([l |-> TLCGet("stats").diameter, v |-> "unconsumed"]))
=============================================================================
