------------------------------- MODULE MC_Sem -------------------------------
(* Exhaustive small scopes for the semantic properties (C01, C02, C04): every
   (schema, value) pair of the scope is an initial state; the invariant prints one
   replay record per state with the expected verdict.  Scope "A" arrays (PEG),
   "B" maps, "C" scalars / ranges / controls, "D" rule graphs.                  *)
EXTENDS CddlSem, Json, IOUtils
CONSTANTS Scope, Fmt, KnownDev, Quick
VARIABLES rules, val

\* ---- constructors
I(n) == IF n >= 0 THEN [k |-> "int", neg |-> FALSE, mag |-> NatOfSmall(n)] ELSE [k |-> "int", neg |-> TRUE, mag |-> NatOfSmall(-1 - n)]
Tx(cp) == [k |-> "text", cp |-> cp]
F(bits) == [k |-> "float", bits |-> bits, nan |-> FALSE]
F15 == F(<<63,248,0,0,0,0,0,0>>)      \* 1.5
F25 == F(<<64,4,0,0,0,0,0,0>>)        \* 2.5
Bo(b) == [k |-> "bool", b |-> b]
Nul == [k |-> "null"]
Arr(xs) == [k |-> "arr", items |-> xs]
Mp(ps) == [k |-> "map", pairs |-> ps]
P(kv, vv) == [key |-> kv, val |-> vv]
Lit(v) == [k |-> "lit", v |-> v]
Ty(alts) == [alts |-> alts]
Ent(lo, hi, key, t) == [k |-> "ent", lo |-> lo, hi |-> hi, key |-> key, t |-> t]
NoKey == [kk |-> "none"]
Bare(n, cp) == [kk |-> "bare", n |-> n, cp |-> cp]
KVal(v) == [kk |-> "val", v |-> v]
KType(t, cut) == [kk |-> "type", t |-> t, cut |-> cut]
Sub(lo, hi, galts) == [k |-> "sub", lo |-> lo, hi |-> hi, g |-> [galts |-> galts]]
ArrT(galts) == [k |-> "arr", g |-> [galts |-> galts]]
MapT(galts) == [k |-> "map", g |-> [galts |-> galts]]
Rng(lo, hi, incl) == [k |-> "range", lo |-> Lit(lo), hi |-> Lit(hi), incl |-> incl]
CtlT(op, t, arg) == [k |-> "ctl", op |-> op, t |-> t, arg |-> arg]
Rule(n, t) == [name |-> n, kind |-> "type", op |-> "=", params |-> <<>>, t |-> t]
GRule(n, e) == [name |-> n, kind |-> "group", op |-> "=", params |-> <<>>, e |-> e]
Root1(t1) == <<Rule("root", Ty(<<t1>>))>>
Seqs(S, n) == UNION {[1..m -> S] : m \in 0..n}

\* ---- scope A: arrays
OccA == IF Quick THEN {<<1,1>>, <<0,1>>, <<0,-1>>, <<1,2>>} ELSE {<<1,1>>, <<0,1>>, <<0,-1>>, <<1,-1>>, <<2,-1>>, <<0,2>>, <<1,2>>}
LeafA == IF Quick THEN {Ty(<<Ref("int")>>), Ty(<<Ref("tstr")>>), Ty(<<Lit(I(1))>>)}
         ELSE {Ty(<<Ref("int")>>), Ty(<<Ref("tstr")>>), Ty(<<Lit(I(1))>>), Ty(<<Ref("int"), Ref("tstr")>>), Ty(<<Ref("any")>>)}
EntA == {Ent(o[1], o[2], NoKey, t) : o \in OccA, t \in LeafA}
SubA == {Sub(o[1], o[2], <<<<Ent(1,1,NoKey,Ty(<<Ref("int")>>)), Ent(1,1,NoKey,Ty(<<Ref("tstr")>>))>>>>) : o \in {<<1,1>>, <<0,1>>, <<0,-1>>, <<1,2>>}}
        \cup {Sub(o[1], o[2], <<<<Ent(1,1,NoKey,Ty(<<Ref("int")>>))>>, <<Ent(1,1,NoKey,Ty(<<Ref("tstr")>>)), Ent(0,1,NoKey,Ty(<<Ref("tstr")>>))>>>>) : o \in {<<1,1>>, <<0,-1>>}}
SchemasA == {Root1(ArrT(<<es>>)) : es \in Seqs(EntA, 2)}
            \cup {Root1(ArrT(<<<<s, e>>>>)) : s \in SubA, e \in {Ent(1,1,NoKey,Ty(<<Ref("int")>>)), Ent(0,-1,NoKey,Ty(<<Ref("tstr")>>))}}
            \cup {Root1(ArrT(<<<<e>>, <<f>>>>)) : e \in {Ent(1,1,NoKey,Ty(<<Ref("int")>>)), Ent(1,-1,NoKey,Ty(<<Ref("int")>>))}, f \in {Ent(1,2,NoKey,Ty(<<Ref("tstr")>>)), Ent(0,-1,NoKey,Ty(<<Ref("any")>>))}}
ElemA == {I(1), I(2), Tx(<<97>>), Nul}
ValuesA == {Arr(xs) : xs \in Seqs(ElemA, 3)} \cup {I(1), Mp(<<>>)}

\* ---- scope B: maps
A == <<97>>  B == <<98>>  Cc == <<99>>
KeysB == {Bare("a", A), KVal(Tx(A)), KType(Lit(Tx(A)), TRUE), KType(Lit(Tx(A)), FALSE), Bare("b", B)}
ValTB == {Ty(<<Ref("int")>>), Ty(<<Ref("tstr")>>)}
MemB == {Ent(o[1], o[2], kk, t) : o \in {<<1,1>>, <<0,1>>}, kk \in KeysB, t \in ValTB}
WildB == {Ent(0, -1, KType(Ref("tstr"), c), t) : c \in BOOLEAN, t \in ValTB} \cup {Ent(1, -1, KType(Ref("tstr"), FALSE), Ty(<<Ref("int")>>))}
DistinctKeys(es) == \A i, j \in 1..Len(es) : i # j => KeyType(es[i]) # KeyType(es[j])
SchemasB == {Root1(MapT(<<es>>)) : es \in {x \in Seqs(MemB, 2) : DistinctKeys(x)}}
            \cup {Root1(MapT(<<<<m, w>>>>)) : m \in MemB, w \in WildB}
            \cup {Root1(MapT(<<<<w>>>>)) : w \in WildB}
            \cup {Root1(MapT(<<<<m>>, <<n>>>>)) : m \in {Ent(1,1,Bare("a",A),Ty(<<Ref("int")>>)), Ent(1,1,Bare("a",A),Ty(<<Ref("tstr")>>))},
                                                n \in {Ent(1,1,Bare("a",A),Ty(<<Ref("tstr")>>)), Ent(1,1,Bare("b",B),Ty(<<Ref("int")>>)), Ent(0,1,Bare("b",B),Ty(<<Ref("int")>>))}}
PairB == {P(Tx(kk), v) : kk \in {A, B, Cc}, v \in {I(1), Tx(<<120>>)}}
NoDupKeys(ps) == \A i, j \in 1..Len(ps) : i # j => ps[i].key # ps[j].key
ValuesB == {Mp(ps) : ps \in {x \in Seqs(PairB, 2) : NoDupKeys(x)}} \cup {Arr(<<>>), I(1)}

\* ---- scope C: scalars
PreC == {"int","uint","nint","tstr","text","bool","true","false","nil","null","any","float","number"}
IntsC == {0, 1, 2, 3, 5, -1, -2, -3, 255, 256, 65535, 65536}
RangesC == {Rng(I(a), I(b), incl) : a \in {-2, 0, 1}, b \in {1, 3, 255}, incl \in BOOLEAN} \cup {Rng(I(-3), I(-1), incl) : incl \in BOOLEAN}
CtlC == {CtlT("size", Ref("uint"), Lit(I(n))) : n \in {0, 1, 2, 4, 8, 16}} \cup {CtlT("size", Ref("tstr"), Lit(I(n))) : n \in {0, 1, 2}}
        \cup {CtlT("size", Ref("tstr"), Rng(I(1), I(2), incl)) : incl \in BOOLEAN}
        \cup {CtlT(op, Ref(t), Lit(I(n))) : op \in {"lt","le","gt","ge","eq","ne"}, t \in {"int","uint","nint"}, n \in {-2, 0, 2}}
        \cup {CtlT(op, Ref("tstr"), Lit(Tx(A))) : op \in {"eq","ne"}}
        \cup {CtlT("cat", Lit(Tx(a)), Lit(Tx(b))) : a \in {<<>>, A}, b \in {<<>>, B, <<233>>}}
        \cup {CtlT("plus", Lit(I(a)), Lit(I(b))) : a \in {0, 1, 2, -1}, b \in {0, 1, -2, -3, 255}}
        \cup {CtlT(op, Ref("int"), Ref("uint")) : op \in {"and","within"}} \cup {CtlT("and", Rng(I(0), I(3), TRUE), Rng(I(2), I(5), TRUE))}
T1C == {Ref(n) : n \in PreC} \cup {Lit(I(n)) : n \in {0, 1, -1, 256}} \cup {Lit(Tx(A)), Lit(Tx(<<>>)), Lit(F15)} \cup RangesC \cup CtlC
       \cup {Rng(F15, F25, incl) : incl \in BOOLEAN}
SchemasC == {Root1(t) : t \in T1C} \cup {<<Rule("root", Ty(<<a, b>>))>> : a \in {Ref("uint"), Lit(I(1)), Ref("tstr")}, b \in {Ref("nil"), Lit(Tx(A)), Rng(I(-2), I(1), FALSE)}}
ValuesC == {I(n) : n \in IntsC} \cup {Tx(A), Tx(<<>>), Tx(<<97,98>>), Tx(<<233>>), F15, F25, F(<<191,240,0,0,0,0,0,0>>), Bo(TRUE), Bo(FALSE), Nul, Arr(<<>>), Mp(<<>>)}
           \cup {[k |-> "int", neg |-> FALSE, mag |-> <<127,255,255,255,255,255,255,255>>], [k |-> "int", neg |-> TRUE, mag |-> <<127,255,255,255,255,255,255,255>>],
                 [k |-> "int", neg |-> FALSE, mag |-> <<255,255,255,255,255,255,255,255>>], [k |-> "int", neg |-> FALSE, mag |-> <<1,0,0,0,0>>], [k |-> "int", neg |-> FALSE, mag |-> <<255,255,255,255>>]}

\* ---- scope D: rule graphs (references, /=, //=, group rules, recursion)
IntT == Ty(<<Ref("int")>>)  TstrT == Ty(<<Ref("tstr")>>)
SchemasD ==
  { <<Rule("root", Ty(<<Ref("t1")>>)), Rule("t1", b)>> : b \in {IntT, TstrT, Ty(<<Ref("int"), Ref("tstr")>>), Ty(<<ArrT(<<<<Ent(0,-1,NoKey,Ty(<<Ref("t1")>>))>>>>), Ref("int")>>)} }
  \cup { <<Rule("root", Ty(<<Ref("t1")>>)), Rule("t1", IntT), [Rule("t1", b) EXCEPT !.op = "/="]>> : b \in {TstrT, Ty(<<Ref("nil")>>)} }
  \cup { <<Rule("root", Ty(<<ArrT(<<<<[k |-> "name", lo |-> o[1], hi |-> o[2], n |-> "g1", args |-> <<>>]>>>>)>>)),
           GRule("g1", Sub(1, 1, <<<<Ent(1,1,NoKey,IntT), Ent(0,1,NoKey,TstrT)>>>>))>> : o \in {<<1,1>>, <<0,1>>, <<0,-1>>, <<1,2>>} }
  \cup { <<Rule("root", Ty(<<ArrT(<<<<[k |-> "name", lo |-> 1, hi |-> 1, n |-> "g1", args |-> <<>>]>>>>)>>)),
           GRule("g1", Ent(1,1,Bare("k", <<107>>),IntT)), [GRule("g1", Ent(1,2,Bare("k", <<107>>),TstrT)) EXCEPT !.op = "//="]>> }
  \cup { <<Rule("root", Ty(<<MapT(<<<<[k |-> "name", lo |-> 1, hi |-> 1, n |-> "g1", args |-> <<>>]>>>>)>>)),
           GRule("g1", Ent(1,1,Bare("a", A),IntT)), [GRule("g1", Ent(o[1],o[2],Bare("b", B),TstrT)) EXCEPT !.op = "//="]>> : o \in {<<1,1>>, <<0,1>>} }
  \cup { <<Rule("root", Ty(<<MapT(<<<<Ent(1,1,Bare("a", A),IntT), [k |-> "name", lo |-> 1, hi |-> 1, n |-> "g1", args |-> <<>>]>>>>)>>)),
           GRule("g1", Ent(1,1,Bare("b", B),IntT)), [GRule("g1", Ent(1,1,Bare("b", B),TstrT)) EXCEPT !.op = "//="]>> }
  \cup { <<Rule("root", Ty(<<MapT(<<<<[k |-> "name", lo |-> o[1], hi |-> o[2], n |-> "g1", args |-> <<>>], Ent(1,1,Bare("b", B),IntT)>>>>)>>)),
           GRule("g1", Ent(1,1,Bare("a", A),IntT))>> : o \in {<<0,1>>, <<1,1>>} }
  \cup { <<Rule("root", Ty(<<CtlT("plus", Ref("c1"), Lit(I(1)))>>)), Rule("c1", Ty(<<Lit(I(0))>>))>>,
         <<Rule("root", Ty(<<CtlT("plus", Lit(I(3)), Ref("c1"))>>)), Rule("c1", Ty(<<Lit(I(-2))>>))>>,
         <<Rule("root", Ty(<<CtlT("cat", Ref("c1"), Lit(Tx(<<>>)))>>)), Rule("c1", Ty(<<Lit(Tx(A))>>))>>,
         <<Rule("root", Ty(<<ArrT(<<<<Ent(1,1,NoKey,Ty(<<CtlT("cat", Lit(Tx(<<>>)), Ref("c1"))>>)), Ent(0,1,NoKey,Ty(<<CtlT("plus", Lit(I(0)), Lit(I(1)))>>))>>>>)>>)), Rule("c1", Ty(<<Lit(Tx(A))>>))>> }
  \cup { <<Rule("root", Ty(<<Ref("a")>>)), Rule("a", Ty(<<Ref("b")>>)), Rule("b", Ty(<<Ref("a")>>))>>,
         <<Rule("root", Ty(<<Ref("a")>>)), Rule("a", Ty(<<Ref("b"), Ref("int")>>)), Rule("b", Ty(<<Ref("a")>>))>>,
         <<Rule("root", Ty(<<ArrT(<<<<Ent(0,-1,NoKey,Ty(<<Ref("root")>>))>>>>)>>))>>,
         <<[name |-> "root", kind |-> "type", op |-> "=", params |-> <<>>, t |-> Ty(<<[k |-> "ref", n |-> "p", args |-> <<Ref("int")>>]>>)],
           [name |-> "p", kind |-> "type", op |-> "=", params |-> <<"T">>, t |-> Ty(<<ArrT(<<<<Ent(0,-1,NoKey,Ty(<<Ref("T")>>))>>>>)>>)]>> }
ValuesD == {Mp(<<P(Tx(A), Tx(A)), P(Tx(B), Tx(A))>>), Mp(<<P(Tx(A), I(1)), P(Tx(B), I(2))>>), Mp(<<P(Tx(A), I(1))>>), Mp(<<P(Tx(B), Tx(A))>>), Mp(<<>>), Mp(<<P(Tx(A), I(1)), P(Tx(B), Tx(A))>>), I(1), Tx(A), Nul, Arr(<<>>), Arr(<<I(1)>>), Arr(<<Tx(A)>>), Arr(<<I(1), Tx(A)>>), Arr(<<I(1), I(2)>>), Arr(<<Tx(A), Tx(A)>>), Arr(<<Arr(<<>>)>>), Arr(<<I(1), Tx(A), I(2)>>)}

Schemas == CASE Scope = "A" -> SchemasA [] Scope = "B" -> SchemasB [] Scope = "C" -> SchemasC [] Scope = "D" -> SchemasD
Values == CASE Scope = "A" -> ValuesA [] Scope = "B" -> ValuesB [] Scope = "C" -> ValuesC [] Scope = "D" -> ValuesD
Init == rules \in Schemas /\ val \in Values
Next == UNCHANGED <<rules, val>>
Spec == Init /\ [][Next]_<<rules, val>>
Emit == LET x == Expected(Fmt, {}, rules, val)
            d == IF KnownDev = {} THEN x ELSE Expected(Fmt, KnownDev, rules, val)
        IN PrintT("R " \o ToJson([rules |-> rules, val |-> val, x |-> x, d |-> d]))
=============================================================================
