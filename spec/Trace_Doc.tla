------------------------------ MODULE Trace_Doc ------------------------------
(* Trace validation of document sessions (C06, C16).  Events of one session, in order:
   Begin{src: comments of the source text}  Parse{ok, ast, cmts}  Format{text}  Parse{...}  Format{...}  End.
   Every event must be enabled as the corresponding DocSession action; at End the session
   invariants are evaluated and the first one that fails is reported.  A disabled event is
   reported and the trace continues with the next session (explicit, recorded skip).      *)
EXTENDS DocSession, Json, IOUtils
Rec == ndJsonDeserialize(IOEnv.TRACE)
VARIABLES l, src
RECURSIVE NextBegin(_)
NextBegin(i) == IF i > Len(Rec) THEN i ELSE IF Rec[i].ev = "Begin" THEN i ELSE NextBegin(i + 1)
Verdict ==
  IF ~Reparses THEN "bad:formatted-text-rejected"
  ELSE IF ~MeaningPreserved THEN "bad:meaning-changed"
  ELSE IF ~Idempotent THEN "bad:not-idempotent"
  ELSE IF Len(cmts) >= 1 /\ ~MSub(cmts[1], src) THEN "bad:comment-not-from-source"
  ELSE IF ~CommentsSurvive THEN "bad:comments-lost-or-duplicated"
  ELSE "ok"
Step(e) ==
  \/ e.ev = "Begin" /\ phase' = "text" /\ asts' = <<>> /\ texts' = <<>> /\ cmts' = <<>> /\ src' = e.src
  \/ e.ev = "Parse" /\ Parse(e.ok, e.ast, e.cmts) /\ UNCHANGED src
  \/ e.ev = "Format" /\ Format(e.text) /\ UNCHANGED src
  \/ e.ev = "End" /\ UNCHANGED <<vars, src>>
Init == l = 1 /\ Init0 /\ src = <<>>
Matched == /\ l <= Len(Rec) /\ Step(Rec[l]) /\ l' = l + 1
           /\ (IF Rec[l].ev = "End" /\ Verdict # "ok" THEN PrintT("V " \o ToJson([l |-> l, v |-> Verdict])) ELSE TRUE)
\* a session stops after a failed parse: the remaining events of that session are not enabled; End still reports
Skip == /\ l <= Len(Rec) /\ ~ENABLED Step(Rec[l])
        /\ PrintT("V " \o ToJson([l |-> l, v |-> "skip:" \o Rec[l].ev]))
        /\ l' = l + 1 /\ UNCHANGED <<vars, src>>
Next == Matched \/ Skip
Spec == Init /\ [][Next]_<<vars, l, src>>
Consumed == IF TLCGet("stats").diameter - 1 = Len(Rec) THEN TRUE
            ELSE PrintT("V " \o ToJson([l |-> TLCGet("stats").diameter, v |-> "unconsumed"]))
=============================================================================
