----------------------------- MODULE Trace_Tree -----------------------------
(* Trace validation for C15 (spans, error positions) and C20 (parents).
   "Spans"   {cs, tree}                          span tree projected from the AST of an accepted document
   "Err"     {cs, index, line, column, r0, r1}   position of a parse error
   "Parent"  {path, kind, got, gotkind, root}    ParentVisitor's answer for the node at 'path' (a sequence of child
                                                 indices from the document root), mapped back to a path by pointer identity *)
EXTENDS AstTree, Json, IOUtils, TLC
Rec == ndJsonDeserialize(IOEnv.TRACE)
VARIABLE l
Judge(e) ==
  CASE e.ev = "Spans" -> LET r == Check(e.cs, e.tree) IN IF r = "ok" THEN "ok" ELSE "bad:" \o r
    [] e.ev = "Err" -> LET r == ErrOk(e.cs, e) IN IF r = "ok" THEN "ok" ELSE "bad:errpos-" \o r
    [] e.ev = "Parent" ->
         IF e.path = <<>> THEN (IF e.none THEN "ok" ELSE "bad:root-has-parent")
         ELSE IF e.none THEN "bad:no-parent:" \o e.kind
         ELSE IF e.got = ParentPath(e.path) THEN "ok" ELSE "bad:wrong-parent:" \o e.kind
    [] OTHER -> "unrelated"
Init == l = 1
Next == /\ l <= Len(Rec)
        /\ LET v == Judge(Rec[l]) IN
             IF v = "ok" THEN TRUE ELSE PrintT("V " \o ToJson([l |-> l, v |-> v]))
        /\ l' = l + 1
Spec == Init /\ [][Next]_l
Consumed == IF TLCGet("stats").diameter - 1 = Len(Rec) THEN TRUE
            ELSE PrintT("V " \o ToJson([l |-> TLCGet("stats").diameter, v |-> "unconsumed"]))
=============================================================================
