------------------------------- MODULE AstTree -------------------------------
(* C15 / C20: an AST as a tree of nodes [k kind, s <<start, end, line>>, ch children, txt?].
   Span invariants over the source text (code points cs; spans are UTF-8 byte offsets), error
   position invariants, and the parent relation.                                              *)
EXTENDS Bytes, FiniteSets

\* byte offsets of the code points: offs[i] = offset at which code point i starts; offs[Len+1] = total length
RECURSIVE OffsR(_,_,_)
OffsR(cs, i, acc) == IF i > Len(cs) THEN acc ELSE OffsR(cs, i + 1, Append(acc, acc[Len(acc)] + CpLen(cs[i])))
\* everything that depends only on the text, computed once per document
Ctx(cs) == LET offs == OffsR(cs, 1, <<0>>) IN
           [cs |-> cs, offs |-> offs, len |-> offs[Len(offs)], bset |-> {offs[i] : i \in 1..Len(offs)},
            lfs |-> {offs[i] : i \in {j \in 1..Len(cs) : cs[j] = 10}}]
CpAt(cx, b) == CHOOSE i \in 1..Len(cx.offs) : cx.offs[i] = b
\* 1-based line of byte offset b: 1 + number of LF before it
LineOf(cx, b) == 1 + Cardinality({x \in cx.lfs : x < b})
\* 1-based column (in characters) of byte offset b
ColOf(cx, b) == LET i == CpAt(cx, b)
                    before == {x \in cx.lfs : x < b}
                    last == IF before = {} THEN 0 ELSE CpAt(cx, CHOOSE x \in before : \A y \in before : y <= x)
                IN i - last
Slice(cx, s, e) == SubSeq(cx.cs, CpAt(cx, s), CpAt(cx, e) - 1)

SpanOk(cx, n) == n.s[1] >= 0 /\ n.s[1] <= n.s[2] /\ n.s[2] <= cx.len /\ n.s[1] \in cx.bset /\ n.s[2] \in cx.bset
LineOk(cx, n) == n.s[3] = LineOf(cx, n.s[1])
Inside(p, c) == p.s[1] <= c.s[1] /\ c.s[2] <= p.s[2]
Ordered(ch) == \A i \in 1..(Len(ch) - 1) : ch[i].s[2] <= ch[i + 1].s[1]
\* the span of an identifier covers exactly its text (with socket prefix)
IdentOk(cx, n) == n.k = "ident" => Slice(cx, n.s[1], n.s[2]) = n.name
\* the span of a rule starts at its name
RuleOk(n) == n.k = "rule" => (Len(n.ch) >= 1 /\ n.ch[1].k = "ident" /\ n.s[1] = n.ch[1].s[1])

\* first violated invariant in the tree (depth-first), or "ok"
RECURSIVE CheckN(_,_), CheckSeq(_,_,_,_)
CheckN(cx, n) ==
  IF ~SpanOk(cx, n) THEN "span-out-of-bounds:" \o n.k
  ELSE IF ~LineOk(cx, n) THEN "line:" \o n.k
  ELSE IF ~IdentOk(cx, n) THEN "ident-text:" \o n.k
  ELSE IF ~RuleOk(n) THEN "rule-start:" \o n.k
  ELSE IF ~Ordered(n.ch) THEN "siblings-overlap:" \o n.k
  ELSE CheckSeq(cx, n, n.ch, 1)
CheckSeq(cx, p, ch, i) ==
  IF i > Len(ch) THEN "ok"
  ELSE IF ~Inside(p, ch[i]) THEN "child-outside-parent:" \o p.k \o ">" \o ch[i].k
  ELSE LET r == CheckN(cx, ch[i]) IN IF r # "ok" THEN r ELSE CheckSeq(cx, p, ch, i + 1)
Check(cs, tree) == CheckN(Ctx(cs), tree)

\* error positions: inside the input, on a character boundary, line/column those of the index, range not inverted
ErrOk(cs, e) ==
  LET cx == Ctx(cs) IN
  IF ~(e.index >= 0 /\ e.index <= cx.len /\ e.index \in cx.bset) THEN "index"
  ELSE IF ~(e.r0 <= e.r1 /\ e.r0 >= 0 /\ e.r1 <= cx.len /\ e.r0 \in cx.bset /\ e.r1 \in cx.bset) THEN "range"
  ELSE IF e.line # LineOf(cx, e.index) THEN "line"
  ELSE IF e.column # ColOf(cx, e.index) THEN "column"
  ELSE "ok"

\* ---- parents (C20): paths are sequences of child indices; Parent(p) drops the last step
ParentPath(p) == SubSeq(p, 1, Len(p) - 1)
=============================================================================
