--------------------------------- MODULE Cli ---------------------------------
(* C18: one invocation of 'cddl validate' as a state machine.
   inv = [ci, schema ("ok" | "bad" | "missing"), docs (sequence, in processing order: --json files, --cbor files,
          --csv files, stdin), each doc = [route, exists, lib] where lib is the verdict of the corresponding
          LIBRARY call with the same features (TRUE = Ok)].
   State: pc, next document, reports so far, exit status.  The tool processes documents in order; with --ci it
   stops at the first failure (missing file, failed validation, schema problem) with a non-zero status.        *)
EXTENDS Integers, Sequences, FiniteSets, TLC
VARIABLES pc, i, reports, exit
vars == <<pc, i, reports, exit>>
Init == pc = "schema" /\ i = 1 /\ reports = <<>> /\ exit = -1
\* report classes per document
Report(d) == IF ~d.exists THEN "missing" ELSE IF d.lib THEN "success" ELSE "failure"
CheckSchema(inv) ==
  /\ pc = "schema"
  /\ IF inv.schema = "missing" THEN
        \* a missing schema is an error that only --ci turns into a failure status
        pc' = "done" /\ exit' = (IF inv.ci THEN 1 ELSE 0) /\ UNCHANGED <<i, reports>>
     ELSE IF inv.schema = "bad" THEN
        \* the root type cannot be determined: the tool fails whatever the mode
        pc' = "done" /\ exit' = 1 /\ UNCHANGED <<i, reports>>
     ELSE pc' = "docs" /\ UNCHANGED <<i, reports, exit>>
NextDoc(inv) ==
  /\ pc = "docs" /\ i <= Len(inv.docs)
  /\ LET r == Report(inv.docs[i]) IN
       /\ reports' = Append(reports, r)
       /\ IF inv.ci /\ r # "success" THEN pc' = "done" /\ exit' = 1 /\ i' = i + 1
          ELSE i' = i + 1 /\ UNCHANGED <<pc, exit>>
Finish(inv) ==
  /\ pc = "docs" /\ i > Len(inv.docs)
  /\ pc' = "done" /\ exit' = 0 /\ UNCHANGED <<i, reports>>
Next(inv) == CheckSchema(inv) \/ NextDoc(inv) \/ Finish(inv)

\* ---- the property, stated on terminal states
\* with --ci the status is non-zero exactly when some document fails or is missing, or the schema does not compile
CiStatus(inv) == (pc = "done" /\ inv.ci) =>
   ((exit # 0) <=> (inv.schema # "ok" \/ \E k \in 1..Len(inv.docs) : Report(inv.docs[k]) # "success"))
\* every report is the library's verdict for that document, in order
ReportsFaithful(inv) == \A k \in 1..Len(reports) : reports[k] = Report(inv.docs[k])
\* without --ci every document is reported
AllReported(inv) == (pc = "done" /\ ~inv.ci /\ inv.schema = "ok") => Len(reports) = Len(inv.docs)
=============================================================================
