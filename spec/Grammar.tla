------------------------------- MODULE Grammar -------------------------------
(* C03: the ABNF of RFC 8610 Appendix B as updated by RFC 9682 (empty document, \u{...} / SESC,
   head-number, #7.<head>), as grammar DATA, plus the four leniencies the crate's grammar file
   documents (tab as whitespace, a final comment without a line break, h"..." byte strings,
   '#(type)') and the registered control-operator names.  Ends(w, e, i) is an all-paths recogniser
   (set of end positions, fixpoint for repetitions) - deliberately NOT a PEG, so that ordered-choice
   artefacts of the implementation show up as disagreements.  Characters are Unicode scalar values. *)
EXTENDS Integers, Sequences, FiniteSets
Ch(a,b) == [k |-> "ch", lo |-> a, hi |-> b]
C(a) == Ch(a,a)
Sq(xs) == [k |-> "seq", xs |-> xs]
Al(xs) == [k |-> "alt", xs |-> xs]
Rp(lo,hi,x) == [k |-> "rep", lo |-> lo, hi |-> hi, x |-> x]   \* hi = -1 inf
Op(x) == Rp(0,1,x)
N(n) == [k |-> "nt", n |-> n]
Lit(cs) == Sq([i \in 1..Len(cs) |-> C(cs[i])])
\* case-insensitive single letter (ABNF strings are case-insensitive)
CIc(c) == IF c >= 97 /\ c <= 122 THEN Al(<<C(c), C(c-32)>>) ELSE IF c >= 65 /\ c <= 90 THEN Al(<<C(c), C(c+32)>>) ELSE C(c)
CI(cs) == Sq([i \in 1..Len(cs) |-> CIc(cs[i])])
HEXDIG == Al(<<Ch(48,57), Ch(65,70), Ch(97,102)>>)
HEXDIG1 == Al(<<Ch(49,57), Ch(65,70), Ch(97,102)>>)
DIGIT == Ch(48,57)
NONASCII == Al(<<Ch(160,55295), Ch(57344,1114109)>>)
OccS == Op(Sq(<<N("occur"), N("S")>>))
CtlNames == << <<115,105,122,101>>, <<98,105,116,115>>, <<114,101,103,101,120,112>>, <<112,99,114,101>>, <<105,114,101,103,101,120,112>>,
  <<99,98,111,114,115,101,113>>, <<99,98,111,114>>, <<119,105,116,104,105,110>>, <<97,110,100>>, <<108,116>>, <<108,101>>, <<103,116>>, <<103,101>>, <<101,113>>, <<110,101>>,
  <<100,101,102,97,117,108,116>>, <<99,97,116>>, <<100,101,116>>, <<112,108,117,115>>, <<97,98,110,102,98>>, <<97,98,110,102>>, <<102,101,97,116,117,114,101>>,
  <<98,54,52,117,45,115,108,111,112,112,121>>, <<98,54,52,99,45,115,108,111,112,112,121>>, <<98,54,52,117>>, <<98,54,52,99>>, <<104,101,120,117,99>>, <<104,101,120,108,99>>, <<104,101,120>>,
  <<98,97,115,101,49,48>>, <<112,114,105,110,116,102>>, <<106,115,111,110>>, <<106,111,105,110>>, <<98,51,50>>, <<104,51,50>>, <<98,52,53>>, <<98,105,116,102,105,101,108,100>> >>
G == [
  cddl |-> Sq(<<N("S"), Rp(0,-1,Sq(<<N("rule"), N("S")>>)), Op(N("lastcomment"))>>),
  lastcomment |-> Sq(<<C(59), Rp(0,-1,N("PCHAR"))>>),   \* leniency: final comment without line break
  rule |-> Al(<<Sq(<<N("id"), Op(N("genericparm")), N("S"), N("assignt"), N("S"), N("type")>>),
                Sq(<<N("id"), Op(N("genericparm")), N("S"), N("assigng"), N("S"), N("grpent")>>)>>),
  assignt |-> Al(<<C(61), Lit(<<47,61>>)>>),
  assigng |-> Al(<<C(61), Lit(<<47,47,61>>)>>),
  genericparm |-> Sq(<<C(60), N("S"), N("id"), N("S"), Rp(0,-1,Sq(<<C(44), N("S"), N("id"), N("S")>>)), C(62)>>),
  genericarg |-> Sq(<<C(60), N("S"), N("type1"), N("S"), Rp(0,-1,Sq(<<C(44), N("S"), N("type1"), N("S")>>)), C(62)>>),
  type |-> Sq(<<N("type1"), Rp(0,-1,Sq(<<N("S"), C(47), N("S"), N("type1")>>))>>),
  type1 |-> Sq(<<N("type2"), Op(Sq(<<N("S"), Al(<<N("rangeop"), N("ctlop")>>), N("S"), N("type2")>>))>>),
  rangeop |-> Al(<<Lit(<<46,46,46>>), Lit(<<46,46>>)>>),
  ctlop |-> Sq(<<C(46), N("ctlname")>>),
  ctlname |-> Al([i \in 1..Len(CtlNames) |-> Lit(CtlNames[i])]),
  headnumber |-> Al(<<N("uint"), Sq(<<C(60), N("type"), C(62)>>)>>),
  type2 |-> Al(<<N("value"),
                 Sq(<<N("id"), Op(N("genericarg"))>>),
                 Sq(<<C(40), N("S"), N("type"), N("S"), C(41)>>),
                 Sq(<<C(123), N("S"), N("group"), N("S"), C(125)>>),
                 Sq(<<C(91), N("S"), N("group"), N("S"), C(93)>>),
                 Sq(<<C(126), N("S"), N("id"), Op(N("genericarg"))>>),
                 Sq(<<C(38), N("S"), C(40), N("S"), N("group"), N("S"), C(41)>>),
                 Sq(<<C(38), N("S"), N("id"), Op(N("genericarg"))>>),
                 Sq(<<C(35), C(54), Op(Sq(<<C(46), N("headnumber")>>)), C(40), N("S"), N("type"), N("S"), C(41)>>),
                 Sq(<<C(35), C(55), Op(Sq(<<C(46), N("headnumber")>>))>>),
                 Sq(<<C(35), DIGIT, Op(Sq(<<C(46), N("uint")>>))>>),
                 Sq(<<C(35), C(40), N("S"), N("type"), N("S"), C(41)>>),   \* leniency '#(type)'
                 C(35)>>),
  group |-> Sq(<<N("grpchoice"), Rp(0,-1,Sq(<<N("S"), Lit(<<47,47>>), N("S"), N("grpchoice")>>))>>),
  grpchoice |-> Rp(0,-1,Sq(<<N("grpent"), N("optcom")>>)),
  grpent |-> Al(<<Sq(<<OccS, Op(Sq(<<N("memberkey"), N("S")>>)), N("type")>>),
                  Sq(<<OccS, N("id"), Op(N("genericarg"))>>),
                  Sq(<<OccS, C(40), N("S"), N("group"), N("S"), C(41)>>)>>),
  memberkey |-> Al(<<Sq(<<N("type1"), N("S"), Op(Sq(<<C(94), N("S")>>)), Lit(<<61,62>>)>>),
                     Sq(<<N("id"), N("S"), C(58)>>),
                     Sq(<<N("value"), N("S"), C(58)>>)>>),
  optcom |-> Sq(<<N("S"), Op(Sq(<<C(44), N("S")>>))>>),
  occur |-> Al(<<Sq(<<Op(N("uint")), C(42), Op(N("uint"))>>), C(43), C(63)>>),
  uint |-> Al(<<Sq(<<Ch(49,57), Rp(0,-1,DIGIT)>>), Sq(<<CI(<<48,120>>), Rp(1,-1,HEXDIG)>>), Sq(<<CI(<<48,98>>), Rp(1,-1,Ch(48,49))>>), C(48)>>),
  value |-> Al(<<N("number"), N("text"), N("bytes")>>),
  int |-> Sq(<<Op(C(45)), N("uint")>>),
  number |-> Al(<<N("hexfloat"), Sq(<<N("int"), Op(Sq(<<C(46), Rp(1,-1,DIGIT)>>)), Op(Sq(<<CIc(101), N("exponent")>>))>>)>>),
  hexfloat |-> Sq(<<Op(C(45)), CI(<<48,120>>), Rp(1,-1,HEXDIG), Op(Sq(<<C(46), Rp(1,-1,HEXDIG)>>)), CIc(112), N("exponent")>>),
  exponent |-> Sq(<<Op(Al(<<C(43), C(45)>>)), Rp(1,-1,DIGIT)>>),
  text |-> Sq(<<C(34), Rp(0,-1,N("SCHAR")), C(34)>>),
  SCHAR |-> Al(<<Ch(32,33), Ch(35,91), Ch(93,126), NONASCII, N("SESC")>>),
  SESC |-> Sq(<<C(92), Al(<<C(34), C(47), C(92), C(98), C(102), C(110), C(114), C(116), Sq(<<C(117), N("hexchar")>>)>>)>>),
  hexchar |-> Al(<<Sq(<<C(123), Al(<<Sq(<<Rp(1,-1,C(48)), Op(N("hexscalar"))>>), N("hexscalar")>>), C(125)>>),
                   N("nonsurrogate"),
                   Sq(<<N("highsurrogate"), C(92), C(117), N("lowsurrogate")>>)>>),
  nonsurrogate |-> Al(<<Sq(<<Al(<<DIGIT, CIc(97), CIc(98), CIc(99), CIc(101), CIc(102)>>), Rp(3,3,HEXDIG)>>),
                        Sq(<<CIc(100), Ch(48,55), Rp(2,2,HEXDIG)>>)>>),
  highsurrogate |-> Sq(<<CIc(100), Al(<<C(56), C(57), CIc(97), CIc(98)>>), Rp(2,2,HEXDIG)>>),
  lowsurrogate |-> Sq(<<CIc(100), Al(<<CIc(99), CIc(100), CIc(101), CIc(102)>>), Rp(2,2,HEXDIG)>>),
  hexscalar |-> Al(<<Sq(<<Lit(<<49,48>>), Rp(4,4,HEXDIG)>>), Sq(<<HEXDIG1, Rp(4,4,HEXDIG)>>), N("nonsurrogate"), Rp(1,3,HEXDIG)>>),
  bytes |-> Al(<<Sq(<<Op(N("bsqual")), C(39), Rp(0,-1,N("BCHAR")), C(39)>>),
                 Sq(<<CIc(104), C(34), Rp(0,-1,Al(<<Ch(32,33), Ch(35,1114109), C(10), C(13), C(9)>>)), C(34)>>)>>),  \* leniency h"..."
  bsqual |-> Al(<<CIc(104), CI(<<98,54,52>>)>>),
  BCHAR |-> Al(<<Ch(32,38), Ch(40,91), Ch(93,126), NONASCII, N("SESC"), Lit(<<92,39>>), N("CRLF")>>),
  id |-> Sq(<<N("ealpha"), Rp(0,-1,Sq(<<Rp(0,-1,Al(<<C(45),C(46)>>)), Al(<<N("ealpha"), DIGIT>>)>>))>>),
  ealpha |-> Al(<<Ch(65,90), Ch(97,122), C(64), C(95), C(36)>>),
  S |-> Rp(0,-1,Al(<<C(32), C(9), N("NL")>>)),          \* leniency: tab as whitespace
  NL |-> Al(<<N("comment"), N("CRLF")>>),
  comment |-> Sq(<<C(59), Rp(0,-1,N("PCHAR")), N("CRLF")>>),
  PCHAR |-> Al(<<Ch(32,126), NONASCII>>),
  CRLF |-> Al(<<C(10), Lit(<<13,10>>)>>)
]

RECURSIVE Ends(_,_,_), SeqEnds(_,_,_,_), RepEnds(_,_,_,_,_)
\* set of end positions (1-based index of next char) for expression e starting at i
Ends(w, e, i) ==
  CASE e.k = "ch" -> IF i <= Len(w) /\ w[i] >= e.lo /\ w[i] <= e.hi THEN {i+1} ELSE {}
    [] e.k = "nt" -> Ends(w, G[e.n], i)
    [] e.k = "alt" -> UNION {Ends(w, e.xs[j], i) : j \in 1..Len(e.xs)}
    [] e.k = "seq" -> SeqEnds(w, e.xs, 1, {i})
    [] e.k = "rep" -> RepEnds(w, e, 0, {i}, IF e.lo = 0 THEN {i} ELSE {})
SeqEnds(w, xs, j, starts) ==
  IF j > Len(xs) \/ starts = {} THEN starts
  ELSE SeqEnds(w, xs, j+1, UNION {Ends(w, xs[j], s) : s \in starts})
\* frontier after n iterations; acc = union of valid ends
RepEnds(w, e, n, frontier, acc) ==
  IF frontier = {} \/ (e.hi # -1 /\ n >= e.hi) THEN acc
  ELSE LET nxt == UNION {Ends(w, e.x, s) : s \in frontier} \ (IF n + 1 >= e.lo THEN acc ELSE {})
       IN RepEnds(w, e, n+1, nxt, IF n + 1 >= e.lo THEN acc \cup nxt ELSE acc)
Derivable(w) == (Len(w) + 1) \in Ends(w, G.cddl, 1)
=============================================================================
