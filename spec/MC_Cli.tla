------------------------------- MODULE MC_Cli -------------------------------
(* All invocations over routes {json, cbor, csv, stdin} with up to 2 documents per file route, document classes
   {success, failure, missing}, --ci on/off, schema {ok, bad, missing}.  TLC model-checks the Cli machine for
   every invocation (CiStatus, ReportsFaithful, AllReported) and prints one replay record per terminal state. *)
EXTENDS Cli, Json, IOUtils
VARIABLE inv
Classes == {"success", "failure", "missing"}
Doc(route, c) == [route |-> route, exists |-> c # "missing", lib |-> c = "success"]
SeqsUpTo(S, n) == UNION {[1..m -> S] : m \in 0..n}
RouteDocs(route, n) == {[k \in 1..Len(cs) |-> Doc(route, cs[k])] : cs \in SeqsUpTo(Classes, n)}
StdinDocs == {<<>>} \cup {<<Doc("stdin-json", c)>> : c \in {"success", "failure"}} \cup {<<Doc("stdin-cbor", c)>> : c \in {"success", "failure"}}
Invocations == {[ci |-> ci, schema |-> s, feat |-> f, docs |-> j \o c \o v \o sd] :
                  ci \in BOOLEAN, s \in {"ok", "bad", "missing"}, f \in BOOLEAN,
                  j \in RouteDocs("json", 2), c \in RouteDocs("cbor", 2), v \in RouteDocs("csv", 1), sd \in StdinDocs}
MCInit == Init /\ inv \in {x \in Invocations : Len(x.docs) >= 1}
MCNext == Next(inv) /\ UNCHANGED inv
Spec == MCInit /\ [][MCNext]_<<vars, inv>>
InvCi == CiStatus(inv)
InvFaithful == ReportsFaithful(inv)
InvAll == AllReported(inv)
Emit == pc = "done" => PrintT("R " \o ToJson([inv |-> inv, reports |-> reports, exit |-> exit]))
=============================================================================
