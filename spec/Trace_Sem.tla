------------------------------ MODULE Trace_Sem ------------------------------
(* Trace validation of validator calls (C01, C02 and the oracle half of others):
   each recorded event {fmt, rules, val, ok} is a call of validate_json_from_str /
   validate_cbor_from_slice on the rendered schema and document together with the
   verdict the real code returned.  The specification's verdict is
   CddlSem!Expected; events never block the trace.                              *)
EXTENDS CddlSem, Cbor, Json, IOUtils
CONSTANT KnownDev
Rec == ndJsonDeserialize(IOEnv.TRACE)
VARIABLE l
Str(b) == IF b THEN "T" ELSE "F"
RECURSIVE VEqMaps(_,_)
VEqMaps(a, b) ==
  a.k = b.k /\
  CASE a.k = "map" -> Len(a.pairs) = Len(b.pairs) /\ \A i \in 1..Len(a.pairs) : VEqMaps(a.pairs[i].key, b.pairs[i].key) /\ VEqMaps(a.pairs[i].val, b.pairs[i].val)
    [] a.k = "arr" -> Len(a.items) = Len(b.items) /\ \A i \in 1..Len(a.items) : VEqMaps(a.items[i], b.items[i])
    [] a.k = "tag" -> a.tn = b.tn /\ VEqMaps(a.c, b.c)
    [] OTHER -> VEq(a, b)
\* an event may carry the CBOR bytes that were validated (non-preferred encodings, C02 encoding independence): they must
\* decode - by the specification's own decoder - to the value the oracle judges; otherwise the driver's encoder is at fault
BytesDenote(e) == ("bytes" \notin DOMAIN e) \/ (LET r == Result({}, e.bytes) IN r.ok /\ VEqMaps(r.v, e.val))
Judge(e) ==
  LET x == Expected(e.fmt, {}, e.rules, e.val)  o == Str(e.ok) IN
  IF ~BytesDenote(e) THEN "unrelated"
  ELSE IF x = "E" THEN "either"
  ELSE IF x = o THEN "ok"
  ELSE IF KnownDev # {} /\ Expected(e.fmt, KnownDev, e.rules, e.val) \in {o, "E"} THEN
       (IF \E d \in KnownDev : Expected(e.fmt, {d}, e.rules, e.val) \in {o, "E"}
        THEN "known:" \o (CHOOSE d \in KnownDev : Expected(e.fmt, {d}, e.rules, e.val) \in {o, "E"})
        ELSE "known:*")
  ELSE "bad:" \o x
Init == l = 1
Next == /\ l <= Len(Rec)
        /\ LET v == Judge(Rec[l]) IN
             IF v = "ok" THEN TRUE ELSE PrintT("V " \o ToJson([l |-> l, v |-> v]))
        /\ l' = l + 1
Spec == Init /\ [][Next]_l
Consumed == IF TLCGet("stats").diameter - 1 = Len(Rec) THEN TRUE
            ELSE PrintT("V " \o ToJson([l |-> TLCGet("stats").diameter, v |-> "unconsumed"]))
=============================================================================
