---------------------------- MODULE MC_RuleTable ----------------------------
(* All definition sequences up to MaxLen over Names x {=, /=, //=} x kinds: every
   reachable state of the RuleTable machine is a document prefix; TLC checks that the
   machine refines the declarative statement of C12 and prints one replay record per
   state (the document and the expected outcome).                                  *)
EXTENDS RuleTable, Json, IOUtils
CONSTANTS Names, MaxLen
VARIABLES defs, st
Ops == {"=", "/=", "//="}
Forms == {"plain", "generic"}
Init == defs = <<>> /\ st = RT0
Next == /\ Len(defs) < MaxLen
        /\ \E n \in Names, op \in Ops, f \in Forms, dist \in {0, 1} :
              LET d == [name |-> n, op |-> op, form |-> f, dist |-> dist] IN
              /\ defs' = Append(defs, d)
              /\ st' = Define(st, n, op)
Spec == Init /\ [][Next]_<<defs, st>>
\* refinement of the operational table against the declarative property
Refines == st.err = DupDecl(defs)
\* the table never raises an error for a document that only uses increments
IncrOnly == (\A i \in 1..Len(defs) : defs[i].op # "=") => st.err = NoErr
\* once raised, the error is stable and later rules are not processed
Emit == PrintT("R " \o ToJson([defs |-> defs, err |-> st.err]))
=============================================================================
