--------------------------- MODULE Trace_Refactor ---------------------------
(* Trace validation of recorded schema sessions (C08).  A session is
     Begin(fmt, rules, vals, oks)   the schema, the documents and the verdict of the real validator for each
     Step(kind, a, rules2, oks)*    a refactoring step and the verdicts for the refactored schema
   The trace specification drives the machine of Refactor.tla: a Step event is accepted only if
   Refactor!Step(kind, a, S, rules2) holds for the current schema S (otherwise "unrelated": the driver proposed
   something the specification does not allow), and the action property "verdicts unchanged" is evaluated on it.
   Verdicts: "T" accepted, "F" rejected, "C" schema rejected by the parser, "X" anything else.               *)
EXTENDS Refactor, Json, IOUtils
CONSTANT KnownDev
Rec == ndJsonDeserialize(IOEnv.TRACE)
VARIABLES l, S, fmt, vals, ver
vars == <<l, S, fmt, vals, ver>>
Str(b) == IF b THEN "T" ELSE "F"
Deviates(f, R, v, o) == LET x == Expected(f, {}, R, v) IN x # "E" /\ x # o
Explained(f, R, v, o) == o \in {"T", "F"} /\ Deviates(f, R, v, o) /\ KnownDev # {} /\ Expected(f, KnownDev, R, v) \in {o, "E"}
Flag(f, R, v, o) == IF \E d \in KnownDev : Expected(f, {d}, R, v) \in {o, "E"}
                    THEN CHOOSE d \in KnownDev : Expected(f, {d}, R, v) \in {o, "E"} ELSE "*"
Args(e) == [e.a EXCEPT !.socks = SeqSet(e.a.socks)]
JudgeStep(e) ==
  IF ~Step(e.kind, Args(e), S, e.rules2) THEN "unrelated"
  ELSE IF e.oks = ver THEN "ok"
  ELSE LET bad == {j \in 1..Len(ver) : e.oks[j] # ver[j]}
           undet(j) == Expected(fmt, {}, S, vals[j]) = "E" \/ Expected(fmt, {}, e.rules2, vals[j]) = "E"
           expl(j) == Explained(fmt, S, vals[j], ver[j]) \/ Explained(fmt, e.rules2, vals[j], e.oks[j])
           hard == {j \in bad : ver[j] \notin {"T", "F"} \/ e.oks[j] \notin {"T", "F"} \/ (~undet(j) /\ ~expl(j))}
       IN IF hard # {} THEN "bad:" \o ToString(CHOOSE j \in hard : \A i \in hard : j <= i)
          ELSE IF \E j \in bad : expl(j)
               THEN (LET j == CHOOSE j \in bad : expl(j) IN
                     "known:" \o (IF Explained(fmt, S, vals[j], ver[j]) THEN Flag(fmt, S, vals[j], ver[j]) ELSE Flag(fmt, e.rules2, vals[j], e.oks[j])))
          ELSE "either"
Init == l = 1 /\ S = <<>> /\ fmt = "" /\ vals = <<>> /\ ver = <<>>
Begin == /\ l <= Len(Rec) /\ Rec[l].ev = "Begin"
         /\ S' = Rec[l].rules /\ fmt' = Rec[l].fmt /\ vals' = Rec[l].vals /\ ver' = Rec[l].oks
         /\ l' = l + 1
StepEv == /\ l <= Len(Rec) /\ Rec[l].ev = "Step"
          /\ LET v == JudgeStep(Rec[l]) IN IF v = "ok" THEN TRUE ELSE PrintT("V " \o ToJson([l |-> l, v |-> v]))
          /\ S' = Rec[l].rules2 /\ ver' = Rec[l].oks
          /\ l' = l + 1 /\ UNCHANGED <<fmt, vals>>
Next == Begin \/ StepEv
Spec == Init /\ [][Next]_vars
Consumed == IF TLCGet("stats").diameter - 1 = Len(Rec) THEN TRUE
            ELSE PrintT("V " \o ToJson([l |-> TLCGet("stats").diameter, v |-> "unconsumed"]))
=============================================================================
