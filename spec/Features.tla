------------------------------ MODULE Features ------------------------------
(* C19: the optional cargo features are orthogonal.
   A configuration is a subset F of the eight documented optional features (std is always on).
   Build half : every configuration builds (MustBuild).
   Behaviour  : the library built with F is a memoryless service offering the operations Provided(F); the history
                machine of Api.tla is shared by ALL configurations: a call (operation, input) returns the same
                abstract result whichever configuration answers it - Api!Return is enabled only if the result agrees
                with what any configuration returned before.                                                       *)
EXTENDS Api
Feat == {"ast-span", "ast-comments", "ast-parent", "json", "cbor", "csv-validate", "additional-controls", "freezer"}
Configs == SUBSET Feat
MustBuild(F) == F \in Configs
Ops == {"parse", "format", "validate_json", "validate_cbor"}
Provided(F) == {"parse", "format"} \cup (IF "json" \in F THEN {"validate_json"} ELSE {}) \cup (IF "cbor" \in F THEN {"validate_cbor"} ELSE {})
\* an input uses functionality a configuration lacks: comments need ast-comments to survive formatting, control operators
\* beyond RFC 8610 need additional-controls.  The driver generates inputs that use neither, so Uses = {} for the corpus.
comparable(op, F, G) == op \in Provided(F) \cap Provided(G)
=============================================================================
