----------------------------- MODULE Trace_Cbor -----------------------------
(* Trace validation for C11: every recorded decode_cbor call of the real code
   ({bytes, obs}) must be the call/return pair the specification allows.
   Function-like events never block: a disagreement is printed and the trace
   goes on.  Verdicts: strict mismatch explained by the named known deviations
   -> "K <l> <flags>", otherwise "B <l>".                                      *)
EXTENDS Cbor, Json, TLC, IOUtils
CONSTANT KnownDev
Rec == ndJsonDeserialize(IOEnv.TRACE)
VARIABLE l
Judge(e) ==
  LET s == Result({}, e.bytes) IN
  IF e.obs = s THEN "ok"
  ELSE IF e.obs = Result(KnownDev, e.bytes) THEN
     \* which single deviation explains it (smallest explanation first)
     IF \E d \in KnownDev : e.obs = Result({d}, e.bytes)
     THEN "known:" \o (CHOOSE d \in KnownDev : e.obs = Result({d}, e.bytes))
     ELSE "known:*"
  ELSE "bad"
Init == l = 1
Next == /\ l <= Len(Rec)
        /\ LET v == Judge(Rec[l]) IN
             IF v = "ok" THEN TRUE ELSE PrintT("V " \o ToJson([l |-> l, v |-> v]))
        /\ l' = l + 1
Spec == Init /\ [][Next]_l
Consumed == IF TLCGet("stats").diameter - 1 = Len(Rec) THEN TRUE ELSE PrintT("V " \o ToJson([l |-> TLCGet("stats").diameter, v |-> "unconsumed"]))
=============================================================================
