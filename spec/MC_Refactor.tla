---------------------------- MODULE MC_Refactor ----------------------------
(* Model-checks the refactoring machine of Refactor.tla against the specification's
   own semantics: from every base schema every sequence of at most MaxDepth enabled
   refactorings is explored and the invariant Transparent requires that, under every
   reading of CddlSem, every document of Docs has the same verdict as for the base
   schema.  Each reachable state is printed as a replay record (base schema, current
   schema, steps) which the driver runs through both real validators.              *)
EXTENDS Refactor, Json, IOUtils
CONSTANTS Fmt, MaxDepth
VARIABLES S0, S, hist

\* ---- constructors
I(n) == IF n >= 0 THEN [k |-> "int", neg |-> FALSE, mag |-> NatOfSmall(n)] ELSE [k |-> "int", neg |-> TRUE, mag |-> NatOfSmall(-1 - n)]
Tx(cp) == [k |-> "text", cp |-> cp]
Nul == [k |-> "null"]
Arr(xs) == [k |-> "arr", items |-> xs]
Mp(ps) == [k |-> "map", pairs |-> ps]
P(kv, vv) == [key |-> kv, val |-> vv]
Lit(v) == [k |-> "lit", v |-> v]
Ty(alts) == [alts |-> alts]
Ent(lo, hi, key, t) == [k |-> "ent", lo |-> lo, hi |-> hi, key |-> key, t |-> t]
NoKey == [kk |-> "none"]
Bare(n, cp) == [kk |-> "bare", n |-> n, cp |-> cp]
KType(t, cut) == [kk |-> "type", t |-> t, cut |-> cut]
SubEnt(lo, hi, galts) == [k |-> "sub", lo |-> lo, hi |-> hi, g |-> [galts |-> galts]]
NameE(lo, hi, n) == [k |-> "name", lo |-> lo, hi |-> hi, n |-> n, args |-> <<>>]
ArrT(galts) == [k |-> "arr", g |-> [galts |-> galts]]
MapT(galts) == [k |-> "map", g |-> [galts |-> galts]]
RefA(n, args) == [k |-> "ref", n |-> n, args |-> args]
Rule(n, t) == [name |-> n, kind |-> "type", op |-> "=", params |-> <<>>, t |-> t]
RuleP(n, ps, t) == [name |-> n, kind |-> "type", op |-> "=", params |-> ps, t |-> t]
GRule(n, e) == [name |-> n, kind |-> "group", op |-> "=", params |-> <<>>, e |-> e]
IntT == Ty(<<Ref("int")>>)  TstrT == Ty(<<Ref("tstr")>>)
A == <<97>>  B == <<98>>

BaseSchemas == {
  <<Rule("root", Ty(<<ArrT(<< <<Ent(0, -1, NoKey, Ty(<<Ref("t1")>>))>> >>)>>)), Rule("t1", Ty(<<Ref("int"), Ref("tstr")>>))>>,
  <<Rule("root", Ty(<<MapT(<< <<Ent(1, 1, Bare("a", A), IntT), Ent(0, 1, Bare("b", B), TstrT)>> >>)>>))>>,
  <<Rule("root", Ty(<<MapT(<< <<NameE(1, 1, "g1")>> >>)>>)), GRule("g1", SubEnt(1, 1, << <<Ent(1, 1, Bare("a", A), IntT)>>, <<Ent(1, 1, Bare("b", B), TstrT)>> >>))>>,
  <<Rule("root", Ty(<<RefA("p", <<Ref("int")>>)>>)), RuleP("p", <<"T">>, Ty(<<ArrT(<< <<Ent(0, -1, NoKey, Ty(<<Ref("T")>>))>> >>)>>))>>,
  <<Rule("root", Ty(<<ArrT(<< <<NameE(1, 2, "g1")>> >>)>>)), GRule("g1", SubEnt(1, 1, << <<Ent(1, 1, NoKey, IntT), Ent(0, 1, NoKey, TstrT)>> >>))>>,
  <<Rule("root", Ty(<<Ref("t1")>>)), Rule("t1", IntT), [Rule("t1", Ty(<<Ref("tstr"), Ref("nil")>>)) EXCEPT !.op = "/="]>>,
  <<Rule("root", Ty(<<[k |-> "ctl", op |-> "size", t |-> Ref("uint"), arg |-> Lit(I(1))], [k |-> "range", lo |-> Lit(I(300)), hi |-> Lit(I(400)), incl |-> TRUE], Lit(Tx(A))>>))>>,
  <<Rule("root", Ty(<<MapT(<< <<Ent(0, -1, KType(Ref("tstr"), FALSE), IntT)>> >>)>>))>>,
  <<Rule("root", Ty(<<RefA("m", <<Ref("int"), Ref("tstr")>>)>>)),
    RuleP("m", <<"K", "V">>, Ty(<<MapT(<< <<Ent(1, 1, Bare("a", A), Ty(<<Ref("K")>>)), Ent(1, 1, Bare("b", B), Ty(<<Ref("V")>>))>> >>)>>))>>,
  <<Rule("root", Ty(<<ArrT(<< <<Ent(0, -1, NoKey, Ty(<<Ref("root")>>))>> >>), Ref("int")>>))>>,
  <<Rule("root", Ty(<<ArrT(<< <<Ent(1, 1, NoKey, IntT)>>, <<Ent(1, 1, NoKey, TstrT), Ent(0, 1, NoKey, TstrT)>> >>)>>)), Rule("u1", IntT)>>,
  <<Rule("root", Ty(<<MapT(<< <<Ent(1, 1, Bare("a", A), Ty(<<Ref("t1")>>)), Ent(0, 1, Bare("b", B), Ty(<<Ref("t2")>>))>> >>)>>)),
    Rule("t1", IntT), Rule("t2", Ty(<<Ref("tstr"), Ref("t1")>>)), Rule("u1", TstrT)>>,
  \* unwrap through an alias: the array group is spliced into the enclosing array
  <<Rule("root", Ty(<<ArrT(<< <<Ent(1, 1, NoKey, Ty(<<[k |-> "unwrap", n |-> "u1", args |-> <<>>]>>)), Ent(0, -1, NoKey, TstrT)>> >>)>>)),
    Rule("u1", Ty(<<Ref("u2")>>)), Rule("u2", Ty(<<ArrT(<< <<Ent(1, 1, NoKey, IntT), Ent(0, 1, NoKey, IntT)>> >>)>>))>>
}
DocSeq == <<Mp(<<P(Tx(A), I(1))>>), Mp(<<P(Tx(B), Tx(A))>>), Mp(<<>>), Mp(<<P(Tx(A), I(1)), P(Tx(B), Tx(A))>>), Mp(<<P(Tx(B), Tx(A)), P(Tx(A), I(1))>>),
         I(1), I(255), I(256), I(350), Tx(A), Tx(B), Nul, Arr(<<>>), Arr(<<I(1)>>), Arr(<<Tx(A)>>), Arr(<<I(1), Tx(A)>>), Arr(<<I(1), I(2)>>),
         Arr(<<Tx(A), Tx(A)>>), Arr(<<Arr(<<>>)>>), Arr(<<I(1), Tx(A), I(2)>>), Arr(<<I(1), Tx(A), I(2), Tx(B)>>), Arr(<<Arr(<<I(1)>>), I(2)>>)>>
Docs == SeqSet(DocSeq)
ASSUME PrintT("D " \o ToJson(DocSeq))

\* ---- positions
RECURSIVE PT(_,_), P1(_,_), PG(_,_), PE(_,_)
PT(t, p) == {p} \cup UNION {P1(t.alts[i], p \o <<"alts", i>>) : i \in 1..Len(t.alts)}
P1(t, p) == {p} \cup
  CASE t.k \in {"paren", "tag"} -> PT(t.t, p \o <<"t">>)
    [] t.k \in {"map", "arr", "enumg"} -> PG(t.g, p \o <<"g">>)
    [] t.k = "range" -> P1(t.lo, p \o <<"lo">>) \cup P1(t.hi, p \o <<"hi">>)
    [] t.k = "ctl" -> P1(t.t, p \o <<"t">>) \cup P1(t.arg, p \o <<"arg">>)
    [] t.k = "ref" -> UNION {P1(t.args[i], p \o <<"args", i>>) : i \in 1..Len(t.args)}
    [] OTHER -> {}
PG(g, p) == UNION {UNION {PE(g.galts[j][i], p \o <<"galts", j, i>>) : i \in 1..Len(g.galts[j])} : j \in 1..Len(g.galts)}
PE(e, p) == {p} \cup
  CASE e.k = "ent" -> PT(e.t, p \o <<"t">>) \cup (IF e.key.kk = "type" THEN P1(e.key.t, p \o <<"key", "t">>) ELSE {})
    [] e.k = "sub" -> PG(e.g, p \o <<"g">>)
    [] e.k = "name" -> UNION {P1(e.args[i], p \o <<"args", i>>) : i \in 1..Len(e.args)}
Paths(R) == UNION {IF R[i].kind = "type" THEN PT(R[i].t, <<i, "t">>) ELSE PE(R[i].e, <<i, "e">>) : i \in 1..Len(R)}

\* ---- candidate steps (all records carry the same fields)
NoMap == [none |-> "none"]
Socks == {"$s1", "$$s1"}
C(kind, path, name, at, idx, k, map, perm) ==
  [kind |-> kind, a |-> [path |-> path, name |-> name, at |-> at, idx |-> idx, k |-> k, map |-> map, perm |-> perm, socks |-> Socks, rev |-> FALSE]]
FreshName(R) == CHOOSE n \in {"x1", "x2", "x3"} : Fresh(R, n) /\ \A m \in {"x1", "x2", "x3"} : Fresh(R, m) => (m = n \/ n = "x1" \/ (n = "x2" /\ m = "x3"))
Swap(n, j) == [i \in 1..n |-> IF i = j THEN j + 1 ELSE IF i = j + 1 THEN j ELSE i]
Cands(R) ==
  {C("paren", p, "", 0, 0, 0, NoMap, <<>>) : p \in Paths(R)}
  \cup {C("extract", p, FreshName(R), at, 0, 0, NoMap, <<>>) : p \in Paths(R), at \in {2, Len(R) + 1}}
  \cup {C("unfold", p, "", 0, 0, 0, NoMap, <<>>) : p \in Paths(R)}
  \cup {C("split", <<>>, "", at, i, k, NoMap, <<>>) : i \in 1..Len(R), k \in 1..2, at \in {Len(R) + 1}}
  \cup {C("socket", <<>>, IF R[i].kind = "type" THEN "$s1" ELSE "$$s1", Len(R) + 1, i, k, NoMap, <<>>) : i \in 1..Len(R), k \in 0..2}
  \cup {C("rename", <<>>, "", 0, 0, 0, [n \in {R[i].name} |-> "zz"], <<>>) : i \in 2..Len(R)}
  \cup {C("reorder", <<>>, "", 0, 0, 0, NoMap, Swap(Len(R), j)) : j \in 2..(Len(R) - 1)}
  \cup {C("remove", <<>>, "", 0, i, 0, NoMap, <<>>) : i \in 2..Len(R)}

Init == S0 \in BaseSchemas /\ S = S0 /\ hist = <<>>
Next == /\ Len(hist) < MaxDepth
        /\ \E c \in Cands(S) : /\ WF(S, Socks)
                               /\ Forward(c.kind, c.a, S, S')
                               /\ WF(S', Socks)
                               /\ hist' = Append(hist, [kind |-> c.kind, a |-> c.a, s |-> S'])
        /\ UNCHANGED S0
Spec == Init /\ [][Next]_<<S0, S, hist>>

Transparent == \A v \in Docs : \A cx \in Readings(Fmt, {}) : Accepts(cx, S, v) = Accepts(cx, S0, v)
Emit == PrintT("R " \o ToJson([s0 |-> S0, s |-> S, hist |-> hist,
                               xs |-> [i \in 1..Len(DocSeq) |-> Expected(Fmt, {}, S, DocSeq[i])]]))
=============================================================================
