SPECIFICATION Spec
CONSTANTS
  MaxLen = 2
  FullPos = 2
  Alpha = {0}
  KnownDev = {"UndefAsNull","TwoByteSimpleLow"}
INVARIANT Emit
CHECK_DEADLOCK FALSE
