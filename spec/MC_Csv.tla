------------------------------- MODULE MC_Csv -------------------------------
(* Exhaustive scope for C13: every text over Alpha up to MaxLen x header flag; one state per
   (text, flag) with the array of arrays the specification maps it to (when the text is
   well-formed RFC 4180 without blank lines).                                          *)
EXTENDS Csv, Json, IOUtils
CONSTANTS Alpha, MaxLen
VARIABLES cs, header
Init == cs \in UNION {[1..n -> Alpha] : n \in 0..MaxLen} /\ header \in BOOLEAN
Next == UNCHANGED <<cs, header>>
Spec == Init /\ [][Next]_<<cs, header>>
Emit == LET m == MapCsv(cs, header) IN
        IF m.ok THEN PrintT("R " \o ToJson([cs |-> cs, header |-> header, rows |-> m.rows])) ELSE TRUE
=============================================================================
