------------------------------- MODULE Cbor -------------------------------
(* RFC 8949: well-formedness (Appendix C) and the data-model value of an encoded
   item, as a decoder over a byte sequence.  Decode(b) succeeds iff b BEGINS with a
   well-formed item whose text strings are valid UTF-8.  Flags name deliberate
   deviations of the implementation (known findings) so that a mismatch can be
   classified; with Dev = {} this is the RFC.                                        *)
EXTENDS Bytes, FiniteSets

Err(w) == [ok |-> FALSE, why |-> w]

\* head: [ok, mt, ai, arg (stripped bytes), raw, indef, nx]
Hd(b, i) ==
  IF i > Len(b) THEN Err("trunc") ELSE
  LET ib == b[i]  mt == ib \div 32  ai == ib % 32 IN
  IF ai < 24 THEN [ok |-> TRUE, mt |-> mt, ai |-> ai, arg |-> <<ai>>, raw |-> <<ai>>, indef |-> FALSE, nx |-> i+1]
  ELSE IF ai <= 27 THEN
     LET n == CASE ai = 24 -> 1 [] ai = 25 -> 2 [] ai = 26 -> 4 [] ai = 27 -> 8 IN
     IF i + n > Len(b) THEN Err("trunc")
     ELSE [ok |-> TRUE, mt |-> mt, ai |-> ai, arg |-> Strip(SubSeq(b, i+1, i+n)), raw |-> SubSeq(b, i+1, i+n), indef |-> FALSE, nx |-> i+1+n]
  ELSE IF ai = 31 THEN
     IF mt \in {0,1,6} THEN Err("reserved") ELSE [ok |-> TRUE, mt |-> mt, ai |-> ai, arg |-> <<0>>, raw |-> <<>>, indef |-> TRUE, nx |-> i+1]
  ELSE Err("reserved")

StrVal(mt, s) == IF mt = 2 THEN [k |-> "bytes", bs |-> s] ELSE [k |-> "text", cp |-> Utf8Dec(s, 1)]
SimpleVal(Dev, n) ==
  CASE n = 20 -> [k |-> "bool", b |-> FALSE]
    [] n = 21 -> [k |-> "bool", b |-> TRUE]
    [] n = 22 -> [k |-> "null"]
    [] n = 23 -> IF "UndefAsNull" \in Dev THEN [k |-> "null"] ELSE [k |-> "undefined"]
    [] OTHER -> [k |-> "simple", sn |-> n]

RECURSIVE Item(_,_,_), Items(_,_,_,_,_), ItemsIndef(_,_,_,_), Pairs(_,_,_,_,_), PairsIndef(_,_,_,_), Chunks(_,_,_,_,_)
Item(Dev, b, i) ==
  LET h == Hd(b, i) IN
  IF ~h.ok THEN h ELSE
  CASE h.mt = 0 -> [ok |-> TRUE, v |-> [k |-> "int", neg |-> FALSE, mag |-> h.arg], nx |-> h.nx]
    [] h.mt = 1 -> [ok |-> TRUE, v |-> [k |-> "int", neg |-> TRUE, mag |-> h.arg], nx |-> h.nx]
    [] h.mt \in {2,3} ->
         IF h.indef THEN Chunks(Dev, b, h.nx, h.mt, <<>>)
         ELSE LET n == Small(h.arg) IN
              IF n = -1 \/ h.nx + n - 1 > Len(b) THEN Err("trunc")
              ELSE LET s == SubSeq(b, h.nx, h.nx + n - 1) IN
                   IF h.mt = 3 /\ ~Utf8Ok(s, 1) THEN Err("utf8")
                   ELSE [ok |-> TRUE, v |-> StrVal(h.mt, s), nx |-> h.nx + n]
    [] h.mt = 4 -> IF h.indef THEN ItemsIndef(Dev, b, h.nx, <<>>)
                   ELSE LET n == Small(h.arg) IN IF n = -1 THEN Err("trunc") ELSE Items(Dev, b, h.nx, n, <<>>)
    [] h.mt = 5 -> IF h.indef THEN PairsIndef(Dev, b, h.nx, <<>>)
                   ELSE LET n == Small(h.arg) IN IF n = -1 THEN Err("trunc") ELSE Pairs(Dev, b, h.nx, n, <<>>)
    [] h.mt = 6 -> LET r == Item(Dev, b, h.nx) IN IF ~r.ok THEN r ELSE [ok |-> TRUE, v |-> [k |-> "tag", tn |-> h.arg, c |-> r.v], nx |-> r.nx]
    [] h.mt = 7 ->
         IF h.indef THEN Err("break")
         ELSE IF h.ai < 24 THEN [ok |-> TRUE, v |-> SimpleVal(Dev, h.ai), nx |-> h.nx]
         ELSE IF h.ai = 24 THEN
              (IF h.raw[1] < 32 /\ "TwoByteSimpleLow" \notin Dev THEN Err("simple")
               ELSE [ok |-> TRUE, v |-> SimpleVal(Dev, h.raw[1]), nx |-> h.nx])
         ELSE LET f == F64OfRaw(h.raw) IN [ok |-> TRUE, v |-> [k |-> "float", bits |-> f.bits, nan |-> f.nan], nx |-> h.nx]
Items(Dev, b, i, n, acc) == IF n = 0 THEN [ok |-> TRUE, v |-> [k |-> "arr", items |-> acc], nx |-> i]
                       ELSE LET r == Item(Dev, b, i) IN IF ~r.ok THEN r ELSE Items(Dev, b, r.nx, n-1, Append(acc, r.v))
ItemsIndef(Dev, b, i, acc) == IF i > Len(b) THEN Err("trunc")
                         ELSE IF b[i] = 255 THEN [ok |-> TRUE, v |-> [k |-> "arr", items |-> acc], nx |-> i+1]
                         ELSE LET r == Item(Dev, b, i) IN IF ~r.ok THEN r ELSE ItemsIndef(Dev, b, r.nx, Append(acc, r.v))
Pairs(Dev, b, i, n, acc) == IF n = 0 THEN [ok |-> TRUE, v |-> [k |-> "map", pairs |-> acc], nx |-> i]
                       ELSE LET r == Item(Dev, b, i) IN IF ~r.ok THEN r ELSE
                            LET q == Item(Dev, b, r.nx) IN IF ~q.ok THEN q ELSE Pairs(Dev, b, q.nx, n-1, Append(acc, [key |-> r.v, val |-> q.v]))
PairsIndef(Dev, b, i, acc) == IF i > Len(b) THEN Err("trunc")
                         ELSE IF b[i] = 255 THEN [ok |-> TRUE, v |-> [k |-> "map", pairs |-> acc], nx |-> i+1]
                         ELSE LET r == Item(Dev, b, i) IN IF ~r.ok THEN r ELSE
                              LET q == Item(Dev, b, r.nx) IN IF ~q.ok THEN q ELSE PairsIndef(Dev, b, q.nx, Append(acc, [key |-> r.v, val |-> q.v]))
Chunks(Dev, b, i, mt, acc) ==
  IF i > Len(b) THEN Err("trunc")
  ELSE IF b[i] = 255 THEN (IF mt = 3 /\ ~Utf8Ok(acc, 1) THEN Err("utf8") ELSE [ok |-> TRUE, v |-> StrVal(mt, acc), nx |-> i+1])
  ELSE LET h == Hd(b, i) IN
       IF ~h.ok THEN h
       ELSE IF h.mt # mt \/ h.indef THEN Err("chunk")
       ELSE LET n == Small(h.arg) IN
            IF n = -1 \/ h.nx + n - 1 > Len(b) THEN Err("trunc")
            ELSE LET s == SubSeq(b, h.nx, h.nx + n - 1) IN
                 \* RFC 8949 3.2.3: each text chunk must itself be valid UTF-8
                 IF mt = 3 /\ ~Utf8Ok(s, 1) THEN Err("utf8") ELSE Chunks(Dev, b, h.nx + n, mt, acc \o s)

Decode(Dev, b) == Item(Dev, b, 1)
\* observable result: value, or just "error" (error sub-kinds of the implementation are not part of C11)
Result(Dev, b) == LET r == Decode(Dev, b) IN IF r.ok THEN [ok |-> TRUE, v |-> r.v] ELSE [ok |-> FALSE]
=============================================================================
