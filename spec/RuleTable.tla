------------------------------ MODULE RuleTable ------------------------------
(* C12.  (1) The rule table as a state machine over the sequence of definitions of a
   document: Define(name, op) is the critical section of pest_bridge::convert_cddl that
   updates seen / incremental names and raises the duplicate error.  (2) The set of
   undefined references of a document (checked entry point).                          *)
EXTENDS CddlSem

\* ------------------------------------------------------------------ (1) duplicate definitions
\* state: [seen, incr, err]; err = [at |-> index of the offending (later) definition, name |-> its name] or NoErr
NoErr == [at |-> 0, name |-> ""]
RT0 == [seen |-> {}, incr |-> {}, err |-> NoErr, n |-> 0]
\* one rule of the document is processed (only while no error has been raised: the parser stops at the first)
Define(st, name, op) ==
  IF st.err # NoErr THEN st
  ELSE IF op = "=" THEN
         IF name \in st.seen \cup st.incr
         THEN [st EXCEPT !.err = [at |-> st.n + 1, name |-> name], !.n = @ + 1]
         ELSE [st EXCEPT !.seen = @ \cup {name}, !.n = @ + 1]
       ELSE [st EXCEPT !.incr = @ \cup {name}, !.n = @ + 1]
RECURSIVE RunDefs(_,_,_)
RunDefs(st, ds, i) == IF i > Len(ds) THEN st ELSE RunDefs(Define(st, ds[i].name, ds[i].op), ds, i + 1)
\* declarative statement of the property: the first definition i with op "=" that has an earlier definition of the same name
DupDecl(ds) ==
  LET bad == {i \in 1..Len(ds) : ds[i].op = "=" /\ \E j \in 1..(i-1) : ds[j].name = ds[i].name} IN
  IF bad = {} THEN NoErr
  ELSE LET i == CHOOSE i \in bad : \A j \in bad : i <= j IN [at |-> i, name |-> ds[i].name]

\* ------------------------------------------------------------------ (2) undefined references
RECURSIVE RefsT(_), Refs1(_), RefsG(_), RefsE(_), RefsSeq(_,_), RefsEs(_,_), RefsGAlts(_,_)
RefsSeq(xs, i) == IF i > Len(xs) THEN {} ELSE Refs1(xs[i]) \cup RefsSeq(xs, i+1)
RefsT(t) == RefsSeq(t.alts, 1)
Refs1(t) ==
  CASE t.k \in {"ref", "unwrap", "enumr"} -> {t.n} \cup RefsSeq(t.args, 1)
    [] t.k = "paren" -> RefsT(t.t)
    [] t.k \in {"map", "arr", "enumg"} -> RefsG(t.g)
    [] t.k = "tag" -> RefsT(t.t)
    [] t.k = "range" -> Refs1(t.lo) \cup Refs1(t.hi)
    [] t.k = "ctl" -> Refs1(t.t) \cup Refs1(t.arg)
    [] OTHER -> {}
RefsEs(es, i) == IF i > Len(es) THEN {} ELSE RefsE(es[i]) \cup RefsEs(es, i+1)
RefsGAlts(gs, i) == IF i > Len(gs) THEN {} ELSE RefsEs(gs[i], 1) \cup RefsGAlts(gs, i+1)
RefsG(g) == RefsGAlts(g.galts, 1)
RefsE(e) ==
  CASE e.k = "ent" -> RefsT(e.t) \cup (IF e.key.kk = "type" THEN Refs1(e.key.t) ELSE {})
    [] e.k = "sub" -> RefsG(e.g)
    [] e.k = "name" -> {e.n} \cup RefsSeq(e.args, 1)
RuleRefs(r) == IF r.kind = "type" THEN RefsT(r.t) ELSE RefsE(r.e)
Defined(R) == {R[i].name : i \in 1..Len(R)}
ParamsOf(r) == {r.params[i] : i \in 1..Len(r.params)}
\* Socks: the socket/plug names of the document ($name, $$name), listed by the harness from the rendered text
Undefined(R, Socks) ==
  UNION {RuleRefs(R[i]) \ (Defined(R) \cup PreludeNames \cup ParamsOf(R[i]) \cup Socks) : i \in 1..Len(R)}
=============================================================================
