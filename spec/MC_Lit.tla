------------------------------- MODULE MC_Lit -------------------------------
(* Exhaustive scope for C07: every string over Alpha up to MaxLen, read as a number
   literal; one state per spelling with the value Literals!NumberLit assigns.        *)
EXTENDS Literals, Json, IOUtils
CONSTANTS Alpha, MaxLen
VARIABLE cs
Init == cs \in UNION {[1..n -> Alpha] : n \in 1..MaxLen}
Next == UNCHANGED cs
Spec == Init /\ [][Next]_cs
Emit == PrintT("R " \o ToJson([cs |-> cs, x |-> NumberLit(cs)]))
=============================================================================
