--------------------------------- MODULE Csv ---------------------------------
(* C13: the data-model mapping of draft-bormann-cbor-cddl-csv.  (1) An RFC 4180 record reader as a
   four-state machine over characters (FieldStart, Unquoted, Quoted, QuoteSeen; CRLF or LF ends a
   record; a final line break is optional).  (2) Field coercion: a field of a non-header row is a
   number exactly when it is spelled [+-] DIGIT+ [. DIGIT+] [e [+-] DIGIT+] with a finite value, and
   text otherwise (incl. the empty field).  Ill-formed CSV (a quote inside an unquoted field, text
   after a closing quote, an unterminated quoted field) and blank lines are outside the fragment.   *)
EXTENDS Literals

\* reader state: [st, recs (finished records), rec (fields of the current record), fld (current field), bad]
R0 == [st |-> "FieldStart", recs |-> <<>>, rec |-> <<>>, fld |-> <<>>, bad |-> FALSE, any |-> FALSE]
EndField(r) == [r EXCEPT !.rec = Append(r.rec, r.fld), !.fld = <<>>, !.st = "FieldStart"]
EndRecord(r) == LET q == EndField(r) IN [q EXCEPT !.recs = Append(q.recs, q.rec), !.rec = <<>>, !.any = FALSE]
\* one character; CR is only meaningful directly before LF (CRLF)
Step(r, c, next) ==
  IF r.bad THEN r
  \* a CR that is not part of CRLF is not TEXTDATA (RFC 4180); it may only occur inside a quoted field
  ELSE IF c = 13 /\ next # 10 /\ r.st # "Quoted" THEN [r EXCEPT !.bad = TRUE] ELSE
  CASE r.st = "FieldStart" ->
         (CASE c = 34 -> [r EXCEPT !.st = "Quoted", !.any = TRUE]
            [] c = 44 -> [EndField(r) EXCEPT !.any = TRUE]
            [] c = 10 -> EndRecord(r)
            [] c = 13 /\ next = 10 -> r
            [] OTHER -> [r EXCEPT !.st = "Unquoted", !.fld = <<c>>, !.any = TRUE])
    [] r.st = "Unquoted" ->
         (CASE c = 34 -> [r EXCEPT !.bad = TRUE]
            [] c = 44 -> EndField(r)
            [] c = 10 -> EndRecord(r)
            [] c = 13 /\ next = 10 -> r
            [] OTHER -> [r EXCEPT !.fld = Append(r.fld, c)])
    [] r.st = "Quoted" ->
         (IF c = 34 THEN [r EXCEPT !.st = "QuoteSeen"] ELSE [r EXCEPT !.fld = Append(r.fld, c)])
    [] r.st = "QuoteSeen" ->
         (CASE c = 34 -> [r EXCEPT !.st = "Quoted", !.fld = Append(r.fld, 34)]
            [] c = 44 -> EndField(r)
            [] c = 10 -> EndRecord(r)
            [] c = 13 /\ next = 10 -> r
            [] OTHER -> [r EXCEPT !.bad = TRUE])
RECURSIVE Run(_,_,_)
Run(r, cs, i) == IF i > Len(cs) THEN r ELSE Run(Step(r, cs[i], IF i < Len(cs) THEN cs[i + 1] ELSE 0), cs, i + 1)
\* the records of a text: [ok, recs] ; blank lines make the text "outside" (RFC 4180's grammar and the csv crate differ on them)
Records(cs) ==
  LET r == Run(R0, cs, 1)
      fin == IF r.bad \/ r.st = "Quoted" THEN [r EXCEPT !.bad = TRUE]
             ELSE IF r.any \/ r.st # "FieldStart" \/ r.rec # <<>> THEN EndRecord(r) ELSE r
      blank == \E i \in 1..Len(fin.recs) : fin.recs[i] = <<<<>>>>
  IN IF fin.bad \/ blank THEN [ok |-> FALSE] ELSE [ok |-> TRUE, recs |-> fin.recs]

\* ---- coercion
IsNumberSpelling(f) ==
  LET b == IF f # <<>> /\ f[1] \in {43, 45} THEN Tail(f) ELSE f
      ie == Find(b, {101, 69})
      mant == IF ie = 0 THEN b ELSE SubSeq(b, 1, ie - 1)
      ex == IF ie = 0 THEN <<>> ELSE SubSeq(b, ie + 1, Len(b))
      exd == IF ex # <<>> /\ ex[1] \in {43, 45} THEN Tail(ex) ELSE ex
      id == Find(mant, {46})
      ip == IF id = 0 THEN mant ELSE SubSeq(mant, 1, id - 1)
      fp == IF id = 0 THEN <<>> ELSE SubSeq(mant, id + 1, Len(mant))
  IN ip # <<>> /\ AllIn(ip, 1, 10) /\ (id = 0 \/ (fp # <<>> /\ AllIn(fp, 1, 10))) /\ (ie = 0 \/ (exd # <<>> /\ AllIn(exd, 1, 10)))
\* spellings that only Rust's f64::from_str reads as numbers ("1.", ".5"): the draft's number syntax does not settle them
IsLooseSpelling(f) ==
  LET b == IF f # <<>> /\ f[1] \in {43, 45} THEN Tail(f) ELSE f
      ie == Find(b, {101, 69})
      mant == IF ie = 0 THEN b ELSE SubSeq(b, 1, ie - 1)
      ex == IF ie = 0 THEN <<>> ELSE SubSeq(b, ie + 1, Len(b))
      exd == IF ex # <<>> /\ ex[1] \in {43, 45} THEN Tail(ex) ELSE ex
      id == Find(mant, {46})
      ip == IF id = 0 THEN mant ELSE SubSeq(mant, 1, id - 1)
      fp == IF id = 0 THEN <<>> ELSE SubSeq(mant, id + 1, Len(mant))
  IN id # 0 /\ (ip = <<>> \/ fp = <<>>) /\ (ip # <<>> \/ fp # <<>>) /\ AllIn(ip, 1, 10) /\ AllIn(fp, 1, 10)
     /\ (ie = 0 \/ (exd # <<>> /\ AllIn(exd, 1, 10)))
IsIntSpelling(f) == LET b == IF f # <<>> /\ f[1] \in {43, 45} THEN Tail(f) ELSE f IN b # <<>> /\ AllIn(b, 1, 10)
\* the CSV number syntax allows leading zeros (DIGIT+), the CDDL literal syntax used by Literals!DecFloat does not
RECURSIVE StripZ(_)
StripZ(b) == IF Len(b) >= 2 /\ b[1] = 48 /\ IsDigit(b[2]) THEN StripZ(Tail(b)) ELSE b
StripLeadingZeros(f) == IF f # <<>> /\ f[1] = 45 THEN <<45>> \o StripZ(Tail(f)) ELSE StripZ(f)
\* value of a field: [k "text"] | [k "int"] | [k "float", exact bits | approx]
Coerce(f, isHeader) ==
  IF ~isHeader /\ IsLooseSpelling(f) THEN [k |-> "either"]
  ELSE IF isHeader \/ ~IsNumberSpelling(f) THEN [k |-> "text", cp |-> f]
  ELSE IF IsIntSpelling(f) THEN
       LET neg == f[1] = 45
           mag == NatOfDigits(IF f[1] \in {43, 45} THEN Tail(f) ELSE f, 1, 10, <<0>>)
       IN IF ~neg /\ NatCmp(mag, Max64) <= 0 THEN [k |-> "int", neg |-> FALSE, mag |-> mag]
          ELSE IF neg /\ mag = <<0>> THEN [k |-> "num"]                       \* "-0": integer 0 or float -0.0, a number either way
          ELSE IF neg /\ NatCmp(mag, Pow63) <= 0 THEN [k |-> "int", neg |-> TRUE, mag |-> Strip(MSA(mag, Len(mag), 1, -1))]
          ELSE [k |-> "num"]                                                  \* beyond 64 bits: the nearest double (rounding not specified here)
  ELSE LET x == DecFloat(StripLeadingZeros(IF f[1] = 43 THEN Tail(f) ELSE f)) IN
       IF x.r = "value" THEN x.v
       ELSE IF x.r = "reject" THEN [k |-> "text", cp |-> f]                   \* not finite: stays text
       ELSE [k |-> "num"]
RECURSIVE MapFields(_,_,_), MapRows(_,_,_)
MapFields(fs, i, hdr) == IF i > Len(fs) THEN <<>> ELSE <<Coerce(fs[i], hdr)>> \o MapFields(fs, i + 1, hdr)
MapRows(rs, i, header) == IF i > Len(rs) THEN <<>> ELSE <<MapFields(rs[i], 1, header /\ i = 1)>> \o MapRows(rs, i + 1, header)
\* array of arrays
MapCsv(cs, header) == LET r == Records(cs) IN IF ~r.ok THEN [ok |-> FALSE] ELSE [ok |-> TRUE, rows |-> MapRows(r.recs, 1, header)]

\* does an observed field (Data value) agree with the specified one?
FieldEq(x, o) ==
  CASE x.k = "text" -> o.k = "text" /\ o.cp = x.cp
    [] x.k = "int" -> o.k = "int" /\ o.neg = x.neg /\ o.mag = x.mag
    [] x.k = "float" -> o.k \in {"float", "int"} /\ (o.k = "float" => VEq(x, o))
    [] x.k = "num" -> o.k \in {"float", "int"}
    [] x.k = "either" -> TRUE
RowsEq(xs, os) == Len(xs) = Len(os) /\ \A i \in 1..Len(xs) : Len(xs[i]) = Len(os[i]) /\ \A j \in 1..Len(xs[i]) : FieldEq(xs[i][j], os[i][j])
=============================================================================
