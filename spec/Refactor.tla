------------------------------ MODULE Refactor ------------------------------
(* C08: naming, generics, sockets and parentheses are semantically transparent.

   A schema session is a state machine whose state is the schema S (CddlAst rules)
   and whose actions are the meaning-preserving refactorings of the property, each
   at a position given by a path into the AST:
       Paren(p)            add redundant parentheses around the node at p
       Extract(p, n, at)   replace the node at p by a reference to the fresh rule n := node
       Unfold(p)           replace a reference by the (instantiated) body of the rule
                           (inlining; for generic rules: substitution by hand)
       Split(i, k, at)     spell the choice of rule i as base + '/=' / '//=' increment
       Socket(i, k, n, at) move the last alternatives of rule i behind the socket n
       Rename(f)           rename rules consistently
       Reorder(perm)       reorder rules other than the first
       Remove(i)           remove a rule that is not reachable from the first
   Every action is usable in both directions (the verdict relation is symmetric).
   Step(kind, a, S, S2) is the transition relation; the property is the action
   invariant "the verdict of every document is unchanged by a step".
   MC_Refactor checks that the specification's own semantics (CddlSem) satisfies
   it; Trace_Refactor checks recorded sessions of the real validators.            *)
EXTENDS CddlSem

\* ---- generic navigation: records and sequences are functions, a path is a sequence of field names / indices
RECURSIVE Get(_,_), Put(_,_,_)
Get(x, p) == IF Len(p) = 0 THEN x ELSE Get(x[p[1]], Tail(p))
Put(x, p, v) == IF Len(p) = 0 THEN v ELSE [x EXCEPT ![p[1]] = Put(x[p[1]], Tail(p), v)]
InsertAt(s, i, x) == SubSeq(s, 1, i-1) \o <<x>> \o SubSeq(s, i, Len(s))
DropAt(s, i) == SubSeq(s, 1, i-1) \o SubSeq(s, i+1, Len(s))
SeqSet(s) == {s[i] : i \in 1..Len(s)}

IsTypeNode(x) == "alts" \in DOMAIN x
IsEntryNode(x) == "k" \in DOMAIN x /\ "lo" \in DOMAIN x /\ x.k \in {"ent", "name", "sub"}
IsType1Node(x) == "k" \in DOMAIN x /\ ~IsEntryNode(x) /\ "kk" \notin DOMAIN x
                  /\ x.k \in {"lit","ref","paren","map","arr","unwrap","enumg","enumr","tag","major","any","range","ctl"}

\* ---- names referenced by a node
RECURSIVE RefsT(_), Refs1(_), RefsG(_), RefsE(_), RefsSeq(_,_), RefsEs(_,_), RefsGA(_,_)
RefsSeq(xs, i) == IF i > Len(xs) THEN {} ELSE Refs1(xs[i]) \cup RefsSeq(xs, i+1)
RefsT(t) == RefsSeq(t.alts, 1)
Refs1(t) ==
  CASE t.k \in {"ref", "unwrap", "enumr"} -> {t.n} \cup RefsSeq(t.args, 1)
    [] t.k \in {"paren", "tag"} -> RefsT(t.t)
    [] t.k \in {"map", "arr", "enumg"} -> RefsG(t.g)
    [] t.k = "range" -> Refs1(t.lo) \cup Refs1(t.hi)
    [] t.k = "ctl" -> Refs1(t.t) \cup Refs1(t.arg)
    [] OTHER -> {}
RefsEs(es, i) == IF i > Len(es) THEN {} ELSE RefsE(es[i]) \cup RefsEs(es, i+1)
RefsGA(gs, j) == IF j > Len(gs) THEN {} ELSE RefsEs(gs[j], 1) \cup RefsGA(gs, j+1)
RefsG(g) == RefsGA(g.galts, 1)
RefsE(e) ==
  CASE e.k = "ent" -> RefsT(e.t) \cup (IF e.key.kk = "type" THEN Refs1(e.key.t) ELSE {})
    [] e.k = "sub" -> RefsG(e.g)
    [] e.k = "name" -> {e.n} \cup RefsSeq(e.args, 1)
RefsNode(x) == IF IsTypeNode(x) THEN RefsT(x) ELSE IF IsEntryNode(x) THEN RefsE(x) ELSE Refs1(x)
Params(r) == SeqSet(r.params)
BodyRefs(r) == IF r.kind = "type" THEN RefsT(r.t) ELSE RefsE(r.e)
RuleRefs(r) == BodyRefs(r) \ Params(r)
Defined(S) == {S[i].name : i \in 1..Len(S)}
AllParams(S) == UNION {Params(S[i]) : i \in 1..Len(S)}
AllNames(S) == Defined(S) \cup AllParams(S) \cup UNION {BodyRefs(S[i]) : i \in 1..Len(S)}
RECURSIVE ReachFrom(_,_)
ReachFrom(S, N) == LET N2 == N \cup UNION {RuleRefs(S[i]) : i \in {j \in 1..Len(S) : S[j].name \in N}} IN
                   IF N2 = N THEN N ELSE ReachFrom(S, N2)
Reach(S) == ReachFrom(S, {S[1].name})
Fresh(S, n) == n \notin AllNames(S) /\ n \notin PreludeNames
\* well-formed: the first rule is a type rule and every name is a rule, a parameter in scope, a prelude name or a socket
WF(S, socks) == Len(S) > 0 /\ S[1].kind = "type" /\ S[1].params = <<>>
                /\ (\A i \in 1..Len(S) : RuleRefs(S[i]) \subseteq (Defined(S) \cup PreludeNames \cup socks))
                /\ \A i, j \in 1..Len(S) : S[i].name = S[j].name => (S[i].kind = S[j].kind /\ S[i].params = S[j].params)

\* ---- Paren
ParenOf(x) == IF IsTypeNode(x) THEN [alts |-> <<[k |-> "paren", t |-> x]>>]
              ELSE IF IsEntryNode(x) THEN [k |-> "sub", lo |-> 1, hi |-> 1, g |-> [galts |-> << <<x>> >>]]
              ELSE [k |-> "paren", t |-> [alts |-> <<x>>]]
\* '~name' as the type of an array / map entry is a group expression (its target's group is spliced in): as a TYPE it may be
\* neither parenthesised nor named - the entry as a whole (a group) may
UnwrapLike(x) == (IsType1Node(x) /\ x.k = "unwrap") \/ (IsTypeNode(x) /\ Len(x.alts) = 1 /\ x.alts[1].k = "unwrap")
Eligible(x) == (IsTypeNode(x) \/ IsEntryNode(x) \/ IsType1Node(x)) /\ ~UnwrapLike(x)
StepParen(a, S, S2) == LET x == Get(S, a.path) IN Eligible(x) /\ S2 = Put(S, a.path, ParenOf(x))

\* ---- Extract: the node must not mention a generic parameter of the enclosing rule
NewTRule(n, t) == [name |-> n, kind |-> "type", op |-> "=", params |-> <<>>, t |-> t]
NewGRule(n, e) == [name |-> n, kind |-> "group", op |-> "=", params |-> <<>>, e |-> e]
RefTo(n) == [k |-> "ref", n |-> n, args |-> <<>>]
StepExtract(a, S, S2) ==
  LET p == a.path  x == Get(S, p)  i == p[1] IN
  /\ Eligible(x) /\ Len(p) > 1 /\ Fresh(S, a.name) /\ a.at \in 2..(Len(S) + 1)
  /\ RefsNode(x) \cap Params(S[i]) = {}
  /\ IF IsTypeNode(x) THEN S2 = InsertAt(Put(S, p, [alts |-> <<RefTo(a.name)>>]), a.at, NewTRule(a.name, x))
     ELSE IF IsType1Node(x) THEN S2 = InsertAt(Put(S, p, RefTo(a.name)), a.at, NewTRule(a.name, [alts |-> <<x>>]))
     ELSE /\ x.k \in {"ent", "sub"}
          /\ S2 = InsertAt(Put(S, p, [k |-> "name", lo |-> x.lo, hi |-> x.hi, n |-> a.name, args |-> <<>>]), a.at,
                           NewGRule(a.name, [x EXCEPT !.lo = 1, !.hi = 1]))

\* ---- Unfold: a reference becomes the rule's body, generic arguments substituted (CddlSem!InstType / InstGroup)
OwnBodyRefs(S, n) == UNION {RuleRefs(S[i]) : i \in RulesNamed(S, n)}
StepUnfold(a, S, S2) ==
  LET p == a.path  x == Get(S, p)  i == p[1] IN
  /\ "k" \in DOMAIN x /\ x.k \in {"ref", "name"} /\ x.n \notin Params(S[i]) /\ RulesNamed(S, x.n) # {}
  /\ Len(RuleParams(S, x.n)) = Len(x.args)
  /\ OwnBodyRefs(S, x.n) \cap Params(S[i]) = {}        \* no capture of the body's global names by the enclosing parameters
  /\ IF x.k = "ref" THEN IsTypeRule(S, x.n) /\ S2 = Put(S, p, [k |-> "paren", t |-> InstType(S, x.n, x.args)])
     ELSE IF IsGroupRule(S, x.n) THEN S2 = Put(S, p, [k |-> "sub", lo |-> x.lo, hi |-> x.hi, g |-> InstGroup(S, x.n, x.args)])
     ELSE S2 = Put(S, p, [k |-> "ent", lo |-> x.lo, hi |-> x.hi, key |-> [kk |-> "none"], t |-> InstType(S, x.n, x.args)])

\* ---- Split / Socket
NoSameNameBetween(S, i, at) == \A j \in (i+1)..(at-1) : S[j].name # S[i].name
StepSplit(a, S, S2) ==
  LET i == a.idx  r == S[i] IN
  /\ i \in 1..Len(S) /\ a.at \in (i+1)..(Len(S) + 1) /\ NoSameNameBetween(S, i, a.at)
  /\ IF r.kind = "type"
     THEN LET n == Len(r.t.alts) IN
          /\ a.k \in 1..(n-1)
          /\ S2 = InsertAt([S EXCEPT ![i].t.alts = SubSeq(r.t.alts, 1, a.k)], a.at,
                           [r EXCEPT !.op = "/=", !.t.alts = SubSeq(r.t.alts, a.k + 1, n)])
     ELSE /\ r.e.k = "sub" /\ r.e.lo = 1 /\ r.e.hi = 1
          /\ LET n == Len(r.e.g.galts) IN
             /\ a.k \in 1..(n-1)
             /\ S2 = InsertAt([S EXCEPT ![i].e.g.galts = SubSeq(r.e.g.galts, 1, a.k)], a.at,
                              [r EXCEPT !.op = "//=", !.e.g.galts = SubSeq(r.e.g.galts, a.k + 1, n)])
StepSocket(a, S, S2) ==
  LET i == a.idx  r == S[i] IN
  /\ i \in 1..Len(S) /\ a.at \in 2..(Len(S) + 1) /\ Fresh(S, a.name) /\ a.name \in a.socks
  /\ IF r.kind = "type"
     THEN LET n == Len(r.t.alts) IN
          /\ a.k \in 0..(n-1) /\ RefsSeq(SubSeq(r.t.alts, a.k + 1, n), 1) \cap Params(r) = {}
          /\ S2 = InsertAt([S EXCEPT ![i].t.alts = SubSeq(r.t.alts, 1, a.k) \o <<RefTo(a.name)>>], a.at,
                           [name |-> a.name, kind |-> "type", op |-> "/=", params |-> <<>>, t |-> [alts |-> SubSeq(r.t.alts, a.k + 1, n)]])
     ELSE /\ r.e.k = "sub" /\ r.e.lo = 1 /\ r.e.hi = 1
          /\ LET n == Len(r.e.g.galts) IN
             /\ a.k \in 0..(n-1) /\ RefsGA(SubSeq(r.e.g.galts, a.k + 1, n), 1) \cap Params(r) = {}
             /\ S2 = InsertAt([S EXCEPT ![i].e.g.galts = SubSeq(r.e.g.galts, 1, a.k)
                                                          \o << <<[k |-> "name", lo |-> 1, hi |-> 1, n |-> a.name, args |-> <<>>]>> >>], a.at,
                              [name |-> a.name, kind |-> "group", op |-> "//=", params |-> <<>>,
                               e |-> [k |-> "sub", lo |-> 1, hi |-> 1, g |-> [galts |-> SubSeq(r.e.g.galts, a.k + 1, n)]]])

\* ---- Rename: f is a record old -> new over rule names; parameters are never touched and never collide
Rn(f, n) == IF n \in DOMAIN f THEN f[n] ELSE n
RECURSIVE RenT(_,_), Ren1(_,_), RenG(_,_), RenE(_,_), RenSeq(_,_,_), RenEs(_,_,_), RenGA(_,_,_)
RenSeq(xs, f, i) == IF i > Len(xs) THEN <<>> ELSE <<Ren1(xs[i], f)>> \o RenSeq(xs, f, i+1)
RenT(t, f) == [alts |-> RenSeq(t.alts, f, 1)]
Ren1(t, f) ==
  CASE t.k \in {"ref", "unwrap", "enumr"} -> [t EXCEPT !.n = Rn(f, t.n), !.args = RenSeq(t.args, f, 1)]
    [] t.k \in {"paren", "tag"} -> [t EXCEPT !.t = RenT(t.t, f)]
    [] t.k \in {"map", "arr", "enumg"} -> [t EXCEPT !.g = RenG(t.g, f)]
    [] t.k = "range" -> [t EXCEPT !.lo = Ren1(t.lo, f), !.hi = Ren1(t.hi, f)]
    [] t.k = "ctl" -> [t EXCEPT !.t = Ren1(t.t, f), !.arg = Ren1(t.arg, f)]
    [] OTHER -> t
RenEs(es, f, i) == IF i > Len(es) THEN <<>> ELSE <<RenE(es[i], f)>> \o RenEs(es, f, i+1)
RenGA(gs, f, j) == IF j > Len(gs) THEN <<>> ELSE <<RenEs(gs[j], f, 1)>> \o RenGA(gs, f, j+1)
RenG(g, f) == [galts |-> RenGA(g.galts, f, 1)]
RenE(e, f) ==
  CASE e.k = "ent" -> [e EXCEPT !.t = RenT(e.t, f), !.key = IF e.key.kk = "type" THEN [e.key EXCEPT !.t = Ren1(e.key.t, f)] ELSE e.key]
    [] e.k = "sub" -> [e EXCEPT !.g = RenG(e.g, f)]
    [] e.k = "name" -> [e EXCEPT !.n = Rn(f, e.n), !.args = RenSeq(e.args, f, 1)]
RenRule(r, f) == IF r.kind = "type" THEN [r EXCEPT !.name = Rn(f, r.name), !.t = RenT(r.t, f)]
                 ELSE [r EXCEPT !.name = Rn(f, r.name), !.e = RenE(r.e, f)]
StepRename(a, S, S2) ==
  LET f == a.map  D == DOMAIN f  Rg == {f[n] : n \in DOMAIN f} IN
  /\ D \subseteq Defined(S) /\ D \cap a.socks = {} /\ D \cap AllParams(S) = {}
  /\ \A m, n \in D : m # n => f[m] # f[n]
  /\ Rg \cap PreludeNames = {} /\ Rg \cap (AllNames(S) \ D) = {} /\ Rg \cap a.socks = {}
  /\ S2 = [i \in 1..Len(S) |-> RenRule(S[i], f)]

\* ---- Reorder / Remove
StepReorder(a, S, S2) ==
  LET q == a.perm IN
  /\ Len(q) = Len(S) /\ SeqSet(q) = 1..Len(S) /\ q[1] = 1
  /\ \A i, j \in 1..Len(S) : (i < j /\ S[q[i]].name = S[q[j]].name) => q[i] < q[j]
  /\ S2 = [i \in 1..Len(S) |-> S[q[i]]]
StepRemove(a, S, S2) ==
  /\ a.idx \in 2..Len(S) /\ S[a.idx].name \notin Reach(S)
  /\ S2 = DropAt(S, a.idx)

Forward(kind, a, S, S2) ==
  CASE kind = "paren" -> StepParen(a, S, S2)
    [] kind = "extract" -> StepExtract(a, S, S2)
    [] kind = "unfold" -> StepUnfold(a, S, S2)
    [] kind = "split" -> StepSplit(a, S, S2)
    [] kind = "socket" -> StepSocket(a, S, S2)
    [] kind = "rename" -> StepRename(a, S, S2)
    [] kind = "reorder" -> StepReorder(a, S, S2)
    [] kind = "remove" -> StepRemove(a, S, S2)
    [] OTHER -> FALSE
\* a.rev: the refactoring is applied from S2 to S (fold, merge increments, add a rule, remove parentheses)
Step(kind, a, S, S2) == WF(S, a.socks) /\ WF(S2, a.socks) /\ IF a.rev THEN Forward(kind, a, S2, S) ELSE Forward(kind, a, S, S2)
=============================================================================
