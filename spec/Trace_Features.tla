---------------------------- MODULE Trace_Features ----------------------------
(* "Build" {set, ok}           cargo check of configuration set
   "Begin" {n}                 a corpus of n distinct calls (ids 1..n), shared by all configurations
   "Call"  {set, op, uses, id, res}  configuration set answered call id (operation op, input uses the features in uses) with res                      *)
EXTENDS Features, Json, IOUtils
Rec == ndJsonDeserialize(IOEnv.TRACE)
VARIABLE l
SetOf(s) == {s[i] : i \in 1..Len(s)}
Step(e) ==
  \/ e.ev = "Build" /\ UNCHANGED seen
  \/ e.ev = "Begin" /\ seen' = [i \in 1..e.n |-> NoRes]
  \/ e.ev = "Call" /\ e.op \in Provided(SetOf(e.set)) /\ SetOf(e.uses) \subseteq SetOf(e.set) /\ Return(e.id, e.res)
Init == l = 1 /\ ApiInit
Matched == /\ l <= Len(Rec) /\ Step(Rec[l]) /\ l' = l + 1
           /\ (IF Rec[l].ev = "Build" /\ MustBuild(SetOf(Rec[l].set)) /\ ~Rec[l].ok THEN PrintT("V " \o ToJson([l |-> l, v |-> "bad:does-not-build"])) ELSE TRUE)
Mismatch == /\ l <= Len(Rec) /\ Rec[l].ev = "Call" /\ ~ENABLED Step(Rec[l])
            /\ PrintT("V " \o ToJson([l |-> l, v |-> IF Rec[l].op \in Provided(SetOf(Rec[l].set)) /\ SetOf(Rec[l].uses) \subseteq SetOf(Rec[l].set) THEN "bad:configurations-disagree" ELSE "unrelated"]))
            /\ l' = l + 1 /\ UNCHANGED seen
Next == Matched \/ Mismatch
Spec == Init /\ [][Next]_<<l, seen>>
Consumed == IF TLCGet("stats").diameter - 1 = Len(Rec) THEN TRUE
            ELSE PrintT("V " \o ToJson([l |-> TLCGet("stats").diameter, v |-> "unconsumed"]))
=============================================================================
