------------------------------ MODULE MC_Graphs ------------------------------
(* Generator scope for C05 (totality of the Api): every rule graph over the names a, b, c in which each
   rule body is one of a fixed set of shapes around references - aliases, choices, arrays, maps, groups,
   unwrap, controls, generic self-application - hence every alias / controller / container cycle over
   three names.  One state per schema; the replay harness validates a fixed set of documents against
   each through both validators: every call must return Ok or Err (Api totality), never panic, abort,
   overflow the stack or hang.                                                                     *)
EXTENDS Integers, Sequences, FiniteSets, Json, TLC, IOUtils
CONSTANT Names
VARIABLE rules
Ref(n) == [k |-> "ref", n |-> n, args |-> <<>>]
Ty(alts) == [alts |-> alts]
NoKey == [kk |-> "none"]
Ent(lo, hi, key, t) == [k |-> "ent", lo |-> lo, hi |-> hi, key |-> key, t |-> t]
NameE(lo, hi, n) == [k |-> "name", lo |-> lo, hi |-> hi, n |-> n, args |-> <<>>]
Arr(es) == [k |-> "arr", g |-> [galts |-> <<es>>]]
Map(es) == [k |-> "map", g |-> [galts |-> <<es>>]]
Lit3 == [k |-> "lit", v |-> [k |-> "int", neg |-> FALSE, mag |-> <<3>>]]
Bare == [kk |-> "bare", n |-> "k", cp |-> <<107>>]
Shapes(x, y) == {
  Ty(<<Ref(x)>>),                                                   \* alias
  Ty(<<Ref(x), Ref("int")>>),                                       \* choice with a base case
  Ty(<<Arr(<<Ent(0, -1, NoKey, Ty(<<Ref(x)>>))>>)>>),               \* [* x]
  Ty(<<Arr(<<Ent(1, 1, NoKey, Ty(<<Ref(x)>>))>>)>>),                \* [x]
  Ty(<<Map(<<Ent(0, 1, Bare, Ty(<<Ref(x)>>))>>)>>),                 \* {? k: x}
  Ty(<<[k |-> "ctl", op |-> "size", t |-> Ref(x), arg |-> Lit3]>>),  \* x .size 3
  Ty(<<[k |-> "ctl", op |-> "and", t |-> Ref(x), arg |-> Ref(y)]>>), \* x .and y
  Ty(<<[k |-> "ctl", op |-> "ne", t |-> Ref(x), arg |-> Ref(y)]>>),  \* x .ne y   (cycle through a controller)
  Ty(<<Arr(<<Ent(1, 1, NoKey, Ty(<<[k |-> "unwrap", n |-> x, args |-> <<>>]>>))>>)>>),   \* [~x]
  Ty(<<Arr(<<NameE(0, -1, x)>>)>>),                                  \* [* x] with x as a group/type name entry
  Ty(<<[k |-> "paren", t |-> Ty(<<Ref(x), Ref(y)>>)]>>),             \* (x / y)
  Ty(<<[k |-> "range", lo |-> Ref(x), hi |-> Ref(y), incl |-> TRUE]>>), \* x..y
  Ty(<<[k |-> "ref", n |-> "g", args |-> <<Ref(x)>>]>>)              \* generic application g<x>
}
Rule(n, t) == [name |-> n, kind |-> "type", op |-> "=", params |-> <<>>, t |-> t]
\* g<T> = [T, ? g<T>]  : generic self-application
GenericRule == [name |-> "g", kind |-> "type", op |-> "=", params |-> <<"T">>,
                t |-> Ty(<<Arr(<<Ent(1, 1, NoKey, Ty(<<Ref("T")>>)), Ent(0, 1, NoKey, Ty(<<[k |-> "ref", n |-> "g", args |-> <<Ref("T")>>]>>))>>)>>)]
NameSeq == CHOOSE s \in [1..Cardinality(Names) -> Names] : \A i, j \in 1..Cardinality(Names) : i # j => s[i] # s[j]
Init == rules \in {[i \in 1..(Cardinality(Names) + 1) |->
                       IF i <= Cardinality(Names) THEN Rule(NameSeq[i], f[NameSeq[i]]) ELSE GenericRule] :
                    f \in [Names -> UNION {Shapes(x, y) : x \in Names, y \in Names}]}
\* second family: cycles that run through the generic rule itself.  g<T> has two alternatives, one that refers back to an
\* instantiation of g (directly, unwrapped, parenthesised, nested, through a second generic h, inside a container) and a base
\* case, in either order; the root reaches g in four ways.  Every reference form has its own visited-rules guard in the code.
GApp(n, a) == [k |-> "ref", n |-> n, args |-> <<a>>]
SelfForms == { GApp("g", Ref("T")),
               [k |-> "unwrap", n |-> "g", args |-> <<Ref("T")>>],
               [k |-> "paren", t |-> Ty(<<GApp("g", Ref("T"))>>)],
               GApp("g", GApp("g", Ref("T"))),
               GApp("h", Ref("T")),
               Arr(<<Ent(1, 1, NoKey, Ty(<<GApp("g", Ref("T"))>>))>>),
               Arr(<<Ent(0, -1, NoKey, Ty(<<[k |-> "unwrap", n |-> "g", args |-> <<Ref("T")>>]>>))>>),
               Map(<<Ent(0, 1, Bare, Ty(<<GApp("g", Ref("T"))>>))>>),
               [k |-> "ctl", op |-> "and", t |-> GApp("g", Ref("T")), arg |-> Ref("T")] }
BaseForms == { Ref("T"), Arr(<<Ent(1, 1, NoKey, Ty(<<Ref("T")>>))>>), Ref("nil") }
RootForms == { GApp("g", Ref("int")), GApp("g", Ref("a")), Arr(<<Ent(1, 1, NoKey, Ty(<<GApp("g", Ref("int"))>>))>>),
               Arr(<<Ent(1, 1, NoKey, Ty(<<[k |-> "unwrap", n |-> "g", args |-> <<Ref("int")>>]>>))>>) }
GRule(n, t) == [name |-> n, kind |-> "type", op |-> "=", params |-> <<"T">>, t |-> t]
GenericFamily == { <<Rule("a", Ty(<<r>>)), GRule("g", IF first THEN Ty(<<sf, b>>) ELSE Ty(<<b, sf>>)), GRule("h", Ty(<<GApp("g", Ref("T"))>>))>> :
                      r \in RootForms, sf \in SelfForms, b \in BaseForms, first \in BOOLEAN }
InitAll == Init \/ rules \in GenericFamily
Next == UNCHANGED rules
Spec == InitAll /\ [][Next]_rules
Emit == PrintT("R " \o ToJson([rules |-> rules]))
=============================================================================
