----------------------------- MODULE Relations -----------------------------
(* Relations between runs (hyperproperties C04, C08, C09, C10): when two cases are
   related, the verdicts of the real code must be equal (or satisfy the stated
   boolean equation).  Every relation is an operator here, so that the trace
   specification re-derives relatedness from the recorded artefacts: a harness bug
   that produces an unrelated pair is reported as "unrelated", never as a violation. *)
EXTENDS CddlSem

\* ------------------------------------------------------------------ JSON data model / CBOR-only constructs (C04)
RECURSIVE JsonModel(_), JsonModelSeq(_,_), JsonModelPairs(_,_)
JsonModelSeq(xs, i) == i > Len(xs) \/ (JsonModel(xs[i]) /\ JsonModelSeq(xs, i+1))
JsonModelPairs(ps, i) == i > Len(ps) \/ (ps[i].key.k = "text" /\ JsonModel(ps[i].val) /\ JsonModelPairs(ps, i+1))
JsonModel(v) ==
  CASE v.k \in {"null", "bool", "text"} -> TRUE
    [] v.k = "int" -> Len(v.mag) <= 8 /\ (v.neg => (Len(v.mag) < 8 \/ v.mag[1] < 128))
    [] v.k = "float" -> ~v.nan /\ FExp(v.bits) # 2047
    [] v.k = "arr" -> JsonModelSeq(v.items, 1)
    [] v.k = "map" -> JsonModelPairs(v.pairs, 1) /\ \A i, j \in 1..Len(v.pairs) : i # j => v.pairs[i].key.cp # v.pairs[j].key.cp
    [] OTHER -> FALSE

CborOnlyNames == {"bstr", "bytes", "undefined", "biguint", "bignint", "bigint", "integer", "unsigned", "tdate", "time", "uri", "b64url",
                  "b64legacy", "regexp", "mime-message", "cbor-any", "encoded-cbor", "eb64url", "eb64legacy", "eb16", "decfrac", "bigfloat",
                  "float16", "float32", "float64", "float16-32", "float32-64"}
RECURSIVE SharedT(_), Shared1(_), SharedG(_), SharedE(_), SharedSeq(_,_), SharedEs(_,_), SharedGAlts(_,_)
SharedSeq(xs, i) == i > Len(xs) \/ (Shared1(xs[i]) /\ SharedSeq(xs, i+1))
SharedT(t) == SharedSeq(t.alts, 1)
Shared1(t) ==
  CASE t.k = "lit" -> t.v.k # "bytes"
    [] t.k = "ref" -> t.n \notin CborOnlyNames /\ SharedSeq(t.args, 1)
    [] t.k = "paren" -> SharedT(t.t)
    [] t.k \in {"map", "arr", "enumg"} -> SharedG(t.g)
    [] t.k \in {"unwrap", "enumr"} -> t.n \notin CborOnlyNames /\ SharedSeq(t.args, 1)
    [] t.k \in {"tag", "major"} -> FALSE
    [] t.k = "any" -> TRUE
    [] t.k = "range" -> Shared1(t.lo) /\ Shared1(t.hi)
    [] t.k = "ctl" -> Shared1(t.t) /\ Shared1(t.arg)
    [] OTHER -> FALSE
SharedEs(es, i) == i > Len(es) \/ (SharedE(es[i]) /\ SharedEs(es, i+1))
SharedGAlts(gs, i) == i > Len(gs) \/ (SharedEs(gs[i], 1) /\ SharedGAlts(gs, i+1))
SharedG(g) == SharedGAlts(g.galts, 1)
SharedE(e) ==
  CASE e.k = "ent" -> SharedT(e.t) /\ (CASE e.key.kk = "type" -> Shared1(e.key.t) [] e.key.kk = "val" -> e.key.v.k = "text" [] OTHER -> TRUE)
    [] e.k = "sub" -> SharedG(e.g)
    [] e.k = "name" -> e.n \notin CborOnlyNames /\ SharedSeq(e.args, 1)
SharedSchema(R) == \A i \in 1..Len(R) : IF R[i].kind = "type" THEN SharedT(R[i].t) ELSE SharedE(R[i].e)

\* ------------------------------------------------------------------ permutations of map entries in a document (C10)
RECURSIVE PermEq(_,_), PermSeq(_,_,_), PermPairs(_,_,_)
PermSeq(xs, ys, i) == i > Len(xs) \/ (PermEq(xs[i], ys[i]) /\ PermSeq(xs, ys, i+1))
\* each pair of ps is matched with a distinct pair of qs: greedy removal is enough because PermEq is an equivalence
RemoveAt(s, i) == SubSeq(s, 1, i-1) \o SubSeq(s, i+1, Len(s))
PermPairs(ps, qs, n) ==
  IF ps = <<>> THEN qs = <<>>
  ELSE LET c == {j \in 1..Len(qs) : PermEq(ps[1].key, qs[j].key) /\ PermEq(ps[1].val, qs[j].val)} IN
       c # {} /\ PermPairs(Tail(ps), RemoveAt(qs, CHOOSE j \in c : TRUE), n)
PermEq(a, b) ==
  a.k = b.k /\
  CASE a.k = "arr" -> Len(a.items) = Len(b.items) /\ PermSeq(a.items, b.items, 1)
    [] a.k = "map" -> Len(a.pairs) = Len(b.pairs) /\ PermPairs(a.pairs, b.pairs, 0)
    [] a.k = "tag" -> a.tn = b.tn /\ PermEq(a.c, b.c)
    [] OTHER -> a = b

\* ------------------------------------------------------------------ permutations of key-disjoint members in a schema (C10)
\* a map group whose members all have distinct literal keys (bareword / value / literal-typed) may be reordered
LitKeyOf(e) == IF e.k # "ent" THEN [ok |-> FALSE]
               ELSE CASE e.key.kk = "bare" -> [ok |-> TRUE, v |-> [k |-> "text", cp |-> e.key.cp]]
                      [] e.key.kk = "val" -> [ok |-> TRUE, v |-> e.key.v]
                      [] e.key.kk = "type" -> IF e.key.t.k = "lit" THEN [ok |-> TRUE, v |-> e.key.t.v] ELSE [ok |-> FALSE]
                      [] OTHER -> [ok |-> FALSE]
DisjointLit(es) == (\A i \in 1..Len(es) : LitKeyOf(es[i]).ok)
                   /\ \A i, j \in 1..Len(es) : i # j => LitKeyOf(es[i]).v # LitKeyOf(es[j]).v
IsPermOf(es, fs) == Len(es) = Len(fs) /\ \E f \in [1..Len(es) -> 1..Len(es)] :
                       (\A i, j \in 1..Len(es) : i # j => f[i] # f[j]) /\ \A i \in 1..Len(es) : fs[i] = es[f[i]]
\* literal keys a member can claim, as a sequence [ok, ks]: a keyed entry, or - through inline groups and (generic or plain) group
\* rule names - the keys of every entry of the group it denotes.  Generic parameters never occur in key position in the fragment.
RECURSIVE KeysE(_,_,_), KeysEs(_,_,_,_), KeysAlts(_,_,_,_)
KeysE(R, e, fuel) ==
  IF e.k = "ent" THEN (IF LitKeyOf(e).ok THEN [ok |-> TRUE, ks |-> <<LitKeyOf(e).v>>] ELSE [ok |-> FALSE, ks |-> <<>>])
  ELSE IF fuel = 0 THEN [ok |-> FALSE, ks |-> <<>>]
  ELSE IF e.k = "sub" THEN KeysAlts(R, e.g.galts, 1, fuel - 1)
  ELSE IF e.k = "name" /\ IsGroupRule(R, e.n) THEN KeysAlts(R, RuleGroup(R, e.n).galts, 1, fuel - 1)
  ELSE [ok |-> FALSE, ks |-> <<>>]
KeysEs(R, es, i, fuel) ==
  IF i > Len(es) THEN [ok |-> TRUE, ks |-> <<>>]
  ELSE LET x == KeysE(R, es[i], fuel)  y == KeysEs(R, es, i + 1, fuel) IN [ok |-> x.ok /\ y.ok, ks |-> x.ks \o y.ks]
KeysAlts(R, gs, j, fuel) ==
  IF j > Len(gs) THEN [ok |-> TRUE, ks |-> <<>>]
  ELSE LET x == KeysEs(R, gs[j], 1, fuel)  y == KeysAlts(R, gs, j + 1, fuel) IN [ok |-> x.ok /\ y.ok, ks |-> x.ks \o y.ks]
\* members with pairwise disjoint literal key sets (at least one member is a group; all-keyed groups are DisjointLit)
DisjointKeySets(R, es) ==
  (\A i \in 1..Len(es) : KeysE(R, es[i], 3).ok /\ KeysE(R, es[i], 3).ks # <<>>)
  /\ \A i, j \in 1..Len(es) : i # j =>
        LET a == KeysE(R, es[i], 3).ks  b == KeysE(R, es[j], 3).ks IN \A x \in 1..Len(a), y \in 1..Len(b) : ~VEq(a[x], b[y])
RECURSIVE MPermT(_,_,_), MPerm1(_,_,_), MPermG(_,_,_,_), MPermE(_,_,_), MPermSeq(_,_,_,_), MPermEs(_,_,_,_)
MPermSeq(R, xs, ys, i) == i > Len(xs) \/ (MPerm1(R, xs[i], ys[i]) /\ MPermSeq(R, xs, ys, i+1))
MPermT(R, a, b) == Len(a.alts) = Len(b.alts) /\ MPermSeq(R, a.alts, b.alts, 1)
MPerm1(R, a, b) ==
  a.k = b.k /\
  CASE a.k = "paren" -> MPermT(R, a.t, b.t)
    [] a.k = "map" -> MPermG(R, a.g, b.g, TRUE)
    [] a.k = "arr" -> MPermG(R, a.g, b.g, FALSE)
    [] a.k = "tag" -> a.tagk = b.tagk /\ MPermT(R, a.t, b.t)
    [] OTHER -> a = b
MPermEs(R, es, fs, i) == i > Len(es) \/ (MPermE(R, es[i], fs[i]) /\ MPermEs(R, es, fs, i+1))
MPermE(R, e, f) ==
  e.k = f.k /\
  CASE e.k = "ent" -> e.lo = f.lo /\ e.hi = f.hi /\ e.key = f.key /\ MPermT(R, e.t, f.t)
    [] e.k = "sub" -> e.lo = f.lo /\ e.hi = f.hi /\ MPermG(R, e.g, f.g, FALSE)
    [] OTHER -> e = f
\* alternatives position by position; inside a map group whose members have pairwise disjoint literal key sets members may be permuted
MPermG(R, g, h, ismap) ==
  Len(g.galts) = Len(h.galts) /\
  \A j \in 1..Len(g.galts) :
     LET es == g.galts[j]  fs == h.galts[j] IN
     Len(es) = Len(fs) /\
     IF ismap /\ (DisjointLit(es) \/ DisjointKeySets(R, es))
     THEN \E p \in [1..Len(es) -> 1..Len(es)] :
             (\A i, k \in 1..Len(es) : i # k => p[i] # p[k]) /\ \A i \in 1..Len(es) : MPermE(R, es[p[i]], fs[i])
     ELSE MPermEs(R, es, fs, 1)
MPermSchema(R, S) == Len(R) = Len(S) /\ \A i \in 1..Len(R) :
   R[i].name = S[i].name /\ R[i].kind = S[i].kind /\ R[i].op = S[i].op /\ R[i].params = S[i].params /\
   IF R[i].kind = "type" THEN MPermT(R, R[i].t, S[i].t) ELSE MPermE(R, R[i].e, S[i].e)

\* ------------------------------------------------------------------ operator / occurrence / prelude identities (C09)
\* contexts in which an operand type can appear; WrapV wraps the document accordingly
T2(x) == IF x.k \in {"range", "ctl"} THEN [k |-> "paren", t |-> [alts |-> <<x>>]] ELSE x   \* operand position needs a type2
TRule(n, t) == [name |-> n, kind |-> "type", op |-> "=", params |-> <<>>, t |-> t]
NoKeyC == [kk |-> "none"]
BareK == [kk |-> "bare", n |-> "k", cp |-> <<107>>]
EntC(lo, hi, key, t) == [k |-> "ent", lo |-> lo, hi |-> hi, key |-> key, t |-> t]
WrapS(ctx, t) ==   \* t is a Type
  CASE ctx = "top" -> <<TRule("root", t)>>
    [] ctx = "arr" -> <<TRule("root", [alts |-> <<[k |-> "arr", g |-> [galts |-> <<<<EntC(1, 1, NoKeyC, t)>>>>]]>>])>>
    [] ctx = "mapval" -> <<TRule("root", [alts |-> <<[k |-> "map", g |-> [galts |-> <<<<EntC(1, 1, BareK, t)>>>>]]>>])>>
    [] ctx = "generic" -> <<TRule("root", [alts |-> <<[k |-> "ref", n |-> "p", args |-> <<IF Len(t.alts) = 1 THEN t.alts[1] ELSE [k |-> "paren", t |-> t]>>]>>]),
                            [name |-> "p", kind |-> "type", op |-> "=", params |-> <<"X">>,
                             t |-> [alts |-> <<[k |-> "arr", g |-> [galts |-> <<<<EntC(1, 1, NoKeyC, [alts |-> <<[k |-> "ref", n |-> "X", args |-> <<>>]>>])>>>>]]>>]]>>
WrapV(ctx, v) ==
  CASE ctx = "top" -> v
    [] ctx \in {"arr", "generic"} -> [k |-> "arr", items |-> <<v>>]
    [] ctx = "mapval" -> [k |-> "map", pairs |-> <<[key |-> [k |-> "text", cp |-> <<107>>], val |-> v]>>]
Ty1(x) == [alts |-> <<x>>]
CtlI(op, a, b) == [k |-> "ctl", op |-> op, t |-> T2(a), arg |-> T2(b)]
\* occurrence spellings: the surface syntax is part of the schema encoding (field sp): "?" vs "0*1" etc. denote the same bounds
\* schemas of an identity instance; the equation over the recorded verdicts is IdentHolds
IdentSchemas(kind, ctx, a, b) ==
  CASE kind = "choice" -> <<WrapS(ctx, [alts |-> <<a, b>>]), WrapS(ctx, [alts |-> <<b, a>>]), WrapS(ctx, Ty1(a)), WrapS(ctx, Ty1(b))>>
    [] kind = "and" -> <<WrapS(ctx, Ty1(CtlI("and", a, b))), WrapS(ctx, Ty1(CtlI("within", a, b))), WrapS(ctx, Ty1(a)), WrapS(ctx, Ty1(b))>>
    [] kind = "ne" -> <<WrapS(ctx, Ty1(CtlI("ne", a, b))), WrapS(ctx, Ty1(a)), WrapS(ctx, Ty1(CtlI("eq", a, b)))>>
    [] kind = "range" -> <<WrapS(ctx, Ty1([k |-> "range", lo |-> a, hi |-> b, incl |-> TRUE])), WrapS(ctx, Ty1([k |-> "range", lo |-> a, hi |-> b, incl |-> FALSE]))>>
    [] kind = "prelude" -> <<WrapS(ctx, Ty1(a)), WrapS(ctx, IF a.n \in PreludeBase THEN Ty1(b) ELSE PreludeDef(a.n))>>
IdentHolds(kind, oks, a, b, v) ==
  CASE kind = "choice" -> oks[1] = oks[2] /\ oks[1] = (oks[3] \/ oks[4])
    [] kind = "and" -> oks[1] = oks[2] /\ oks[1] = (oks[3] /\ oks[4])
    [] kind = "ne" -> oks[1] = (oks[2] /\ ~oks[3])
    [] kind = "range" -> IF b.k = "lit" /\ VEq(b.v, v) THEN ~oks[2] ELSE oks[1] = oks[2]
    [] kind = "prelude" -> oks[1] = oks[2]
\* base prelude names and the major-type spelling Appendix D gives them
MajorT(mt, has, n) == [k |-> "major", mt |-> mt, has |-> has, num |-> NatOfSmall(n)]
PreludeBaseDef(n) ==
  CASE n = "uint" -> MajorT(0, FALSE, 0) [] n = "nint" -> MajorT(1, FALSE, 0) [] n = "bstr" -> MajorT(2, FALSE, 0) [] n = "tstr" -> MajorT(3, FALSE, 0)
    [] n = "false" -> MajorT(7, TRUE, 20) [] n = "true" -> MajorT(7, TRUE, 21) [] n = "nil" -> MajorT(7, TRUE, 22) [] n = "undefined" -> MajorT(7, TRUE, 23)
    [] n = "float16" -> MajorT(7, TRUE, 25) [] n = "float32" -> MajorT(7, TRUE, 26) [] n = "float64" -> MajorT(7, TRUE, 27)
    [] n = "any" -> [k |-> "any"]
\* occurrence identity: two groups that differ only in how an occurrence is spelled have the same bounds, hence the same AST here;
\* the event records the two spellings and the trace specification checks they denote the same (lo, hi)
OccBounds(sp) ==
  CASE sp = "?" -> <<0, 1>> [] sp = "*" -> <<0, -1>> [] sp = "+" -> <<1, -1>>
    [] sp = "0*1" -> <<0, 1>> [] sp = "0*" -> <<0, -1>> [] sp = "1*" -> <<1, -1>> [] sp = "" -> <<1, 1>> [] sp = "1*1" -> <<1, 1>>
=============================================================================
