------------------------------ MODULE MC_Cbor ------------------------------
(* Generator + oracle scope for C11: every byte string of length 0..MaxLen
   (positions beyond FullPos drawn from the representative alphabet Alpha) is an
   initial state; the invariant prints one replay record per state with the
   expected RFC 8949 result and, when it differs, the result under the named
   known deviations.                                                          *)
EXTENDS Cbor, Json, TLC, IOUtils
CONSTANTS MaxLen, FullPos, Alpha, KnownDev
VARIABLE b
Pos(i) == IF i <= FullPos THEN 0..255 ELSE Alpha
Strings(n) == IF n = 0 THEN {<<>>} ELSE {f \in [1..n -> 0..255] : \A i \in 1..n : f[i] \in Pos(i)}
Init == b \in UNION {Strings(n) : n \in 0..MaxLen}
Next == UNCHANGED b
Spec == Init /\ [][Next]_b
Emit == LET s == Result({}, b)  d == Result(KnownDev, b) IN
        PrintT("R " \o ToJson([bytes |-> b, s |-> s, same |-> (s = d), d |-> d]))
=============================================================================
