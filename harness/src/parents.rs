use serde_json::{json, Value as J};
pub fn check(_c: &cddl::ast::CDDL) -> J { json!({"ok":true}) }
