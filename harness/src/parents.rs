// C20: for every node reachable from the document root (in the containment relation the crate's
// impl_parent! table defines) ask ParentVisitor for its parent and map the answer back to a path by
// pointer identity.  Reports one record per node: {path, kind, none, got, gotkind}.  Decides nothing.
use cddl::ast::parent::ParentVisitor;
use cddl::ast::*;
#[allow(unused_imports)]
use cddl::token::ControlOperator;
use serde_json::{json, Value as J};
use std::collections::HashMap;

type Key = (&'static str, usize);

struct Walk<'a, 'b> {
  // (kind, address) -> path
  paths: HashMap<Key, Vec<usize>>,
  nodes: Vec<(Vec<usize>, &'static str, CDDLType<'a, 'b>)>,
}

fn addr<T>(r: &T) -> usize {
  r as *const T as usize
}

impl<'a, 'b: 'a> Walk<'a, 'b> {
  fn add(&mut self, path: &[usize], kind: &'static str, a: usize, t: CDDLType<'a, 'b>) {
    self.paths.entry((kind, a)).or_insert_with(|| path.to_vec());
    self.nodes.push((path.to_vec(), kind, t));
  }

  fn ident(&mut self, p: &[usize], i: &'b Identifier<'a>) {
    self.add(p, "Identifier", addr(i), CDDLType::Identifier(i));
  }

  fn gargs(&mut self, p: &[usize], g: &'b GenericArgs<'a>) {
    self.add(p, "GenericArgs", addr(g), CDDLType::GenericArgs(g));
    for (i, a) in g.args.iter().enumerate() {
      let mut q = p.to_vec();
      q.push(i);
      self.add(&q, "GenericArg", addr(a), CDDLType::GenericArg(a));
      let mut r = q.clone();
      r.push(0);
      self.type1(&r, &a.arg);
    }
  }

  fn gparams(&mut self, p: &[usize], g: &'b GenericParams<'a>) {
    self.add(p, "GenericParams", addr(g), CDDLType::GenericParams(g));
    for (i, a) in g.params.iter().enumerate() {
      let mut q = p.to_vec();
      q.push(i);
      self.add(&q, "GenericParam", addr(a), CDDLType::GenericParam(a));
      let mut r = q.clone();
      r.push(0);
      self.ident(&r, &a.param);
    }
  }

  fn ty(&mut self, p: &[usize], t: &'b Type<'a>) {
    self.add(p, "Type", addr(t), CDDLType::Type(t));
    for (i, tc) in t.type_choices.iter().enumerate() {
      let mut q = p.to_vec();
      q.push(i);
      self.add(&q, "TypeChoice", addr(tc), CDDLType::TypeChoice(tc));
      let mut r = q.clone();
      r.push(0);
      self.type1(&r, &tc.type1);
    }
  }

  fn type1(&mut self, p: &[usize], t: &'b Type1<'a>) {
    self.add(p, "Type1", addr(t), CDDLType::Type1(t));
    let mut q = p.to_vec();
    q.push(0);
    self.type2(&q, &t.type2);
    if let Some(op) = &t.operator {
      let mut q = p.to_vec();
      q.push(1);
      self.add(&q, "Operator", addr(op), CDDLType::Operator(op));
      let mut r = q.clone();
      r.push(0);
      self.type2(&r, &op.type2);
      // the range / control operator token of the operator, and the control operator it names
      let mut r = q.clone();
      r.push(1);
      self.add(&r, "RangeCtlOp", addr(&op.operator), CDDLType::RangeCtlOp(&op.operator));
      if let RangeCtlOp::CtlOp { ctrl, .. } = &op.operator {
        let mut c = r.clone();
        c.push(0);
        self.add(&c, "ControlOperator", addr(ctrl), CDDLType::ControlOperator(ctrl));
      }
    }
  }

  fn type2(&mut self, p: &[usize], t: &'b Type2<'a>) {
    self.add(p, "Type2", addr(t), CDDLType::Type2(t));
    let mut n = 0usize;
    let mut next = |n: &mut usize| {
      let mut q = p.to_vec();
      q.push(*n);
      *n += 1;
      q
    };
    match t {
      Type2::Typename { ident, generic_args, .. }
      | Type2::Unwrap { ident, generic_args, .. }
      | Type2::ChoiceFromGroup { ident, generic_args, .. } => {
        let q = next(&mut n);
        self.ident(&q, ident);
        if let Some(g) = generic_args {
          let q = next(&mut n);
          self.gargs(&q, g);
        }
      }
      Type2::ParenthesizedType { pt, .. } => {
        let q = next(&mut n);
        self.ty(&q, pt);
      }
      Type2::TaggedData { t, .. } => {
        let q = next(&mut n);
        self.ty(&q, t);
      }
      Type2::Map { group, .. } | Type2::Array { group, .. } | Type2::ChoiceFromInlineGroup { group, .. } => {
        let q = next(&mut n);
        self.group(&q, group);
      }
      _ => {}
    }
  }

  fn group(&mut self, p: &[usize], g: &'b Group<'a>) {
    self.add(p, "Group", addr(g), CDDLType::Group(g));
    for (i, gc) in g.group_choices.iter().enumerate() {
      let mut q = p.to_vec();
      q.push(i);
      self.add(&q, "GroupChoice", addr(gc), CDDLType::GroupChoice(gc));
      for (j, (ge, _)) in gc.group_entries.iter().enumerate() {
        let mut r = q.clone();
        r.push(j);
        self.entry(&r, ge);
      }
    }
  }

  fn entry(&mut self, p: &[usize], e: &'b GroupEntry<'a>) {
    self.add(p, "GroupEntry", addr(e), CDDLType::GroupEntry(e));
    match e {
      GroupEntry::ValueMemberKey { ge, .. } => {
        let mut q = p.to_vec();
        q.push(0);
        self.add(&q, "ValueMemberKeyEntry", addr(&**ge), CDDLType::ValueMemberKeyEntry(ge));
        let mut n = 0usize;
        if let Some(o) = &ge.occur {
          let mut r = q.clone();
          r.push(n);
          n += 1;
          self.add(&r, "Occurrence", addr(o), CDDLType::Occurrence(o));
        }
        if let Some(mk) = &ge.member_key {
          let mut r = q.clone();
          r.push(n);
          n += 1;
          self.add(&r, "MemberKey", addr(mk), CDDLType::MemberKey(mk));
          match mk {
            MemberKey::Type1 { t1, .. } => {
              let mut s = r.clone();
              s.push(0);
              self.type1(&s, t1);
            }
            MemberKey::Bareword { ident, .. } => {
              let mut s = r.clone();
              s.push(0);
              self.ident(&s, ident);
            }
            _ => {}
          }
        }
        let mut r = q.clone();
        r.push(n);
        self.ty(&r, &ge.entry_type);
      }
      GroupEntry::TypeGroupname { ge, .. } => {
        let mut q = p.to_vec();
        q.push(0);
        self.add(&q, "TypeGroupnameEntry", addr(ge), CDDLType::TypeGroupnameEntry(ge));
        let mut n = 0usize;
        if let Some(o) = &ge.occur {
          let mut r = q.clone();
          r.push(n);
          n += 1;
          self.add(&r, "Occurrence", addr(o), CDDLType::Occurrence(o));
        }
        let mut r = q.clone();
        r.push(n);
        n += 1;
        self.ident(&r, &ge.name);
        if let Some(g) = &ge.generic_args {
          let mut r = q.clone();
          r.push(n);
          self.gargs(&r, g);
        }
      }
      GroupEntry::InlineGroup { occur, group, .. } => {
        let mut n = 0usize;
        if let Some(o) = occur {
          let mut r = p.to_vec();
          r.push(n);
          n += 1;
          self.add(&r, "Occurrence", addr(o), CDDLType::Occurrence(o));
        }
        let mut r = p.to_vec();
        r.push(n);
        self.group(&r, group);
      }
    }
  }
}

fn key_of(t: &CDDLType) -> Key {
  match t {
    CDDLType::CDDL(x) => ("CDDL", addr(*x)),
    CDDLType::Rule(x) => ("Rule", addr(*x)),
    CDDLType::TypeRule(x) => ("TypeRule", addr(*x)),
    CDDLType::GroupRule(x) => ("GroupRule", addr(*x)),
    CDDLType::Group(x) => ("Group", addr(*x)),
    CDDLType::GroupChoice(x) => ("GroupChoice", addr(*x)),
    CDDLType::GenericParams(x) => ("GenericParams", addr(*x)),
    CDDLType::GenericParam(x) => ("GenericParam", addr(*x)),
    CDDLType::GenericArgs(x) => ("GenericArgs", addr(*x)),
    CDDLType::GenericArg(x) => ("GenericArg", addr(*x)),
    CDDLType::GroupEntry(x) => ("GroupEntry", addr(*x)),
    CDDLType::Identifier(x) => ("Identifier", addr(*x)),
    CDDLType::Type(x) => ("Type", addr(*x)),
    CDDLType::TypeChoice(x) => ("TypeChoice", addr(*x)),
    CDDLType::Type1(x) => ("Type1", addr(*x)),
    CDDLType::Type2(x) => ("Type2", addr(*x)),
    CDDLType::Operator(x) => ("Operator", addr(*x)),
    CDDLType::RangeCtlOp(x) => ("RangeCtlOp", addr(*x)),
    CDDLType::ControlOperator(x) => ("ControlOperator", addr(*x)),
    CDDLType::Occurrence(x) => ("Occurrence", addr(*x)),
    CDDLType::ValueMemberKeyEntry(x) => ("ValueMemberKeyEntry", addr(*x)),
    CDDLType::TypeGroupnameEntry(x) => ("TypeGroupnameEntry", addr(*x)),
    CDDLType::MemberKey(x) => ("MemberKey", addr(*x)),
    CDDLType::NonMemberKey(x) => ("NonMemberKey", addr(*x)),
    _ => ("Other", 0),
  }
}

pub fn check(c: &CDDL) -> J {
  let pv = match ParentVisitor::new(c) {
    Ok(p) => p,
    Err(e) => return json!({"ok": true, "built": false, "err": e.to_string()}),
  };
  let mut w = Walk { paths: HashMap::new(), nodes: vec![] };
  w.add(&[], "CDDL", addr(c), CDDLType::CDDL(c));
  for (i, r) in c.rules.iter().enumerate() {
    let p = vec![i];
    w.add(&p, "Rule", addr(r), CDDLType::Rule(r));
    let q = vec![i, 0];
    match r {
      Rule::Type { rule, .. } => {
        w.add(&q, "TypeRule", addr(rule), CDDLType::TypeRule(rule));
        let mut n = 0usize;
        let mut r0 = q.clone();
        r0.push(n);
        n += 1;
        w.ident(&r0, &rule.name);
        if let Some(g) = &rule.generic_params {
          let mut r1 = q.clone();
          r1.push(n);
          n += 1;
          w.gparams(&r1, g);
        }
        let mut r2 = q.clone();
        r2.push(n);
        w.ty(&r2, &rule.value);
      }
      Rule::Group { rule, .. } => {
        w.add(&q, "GroupRule", addr(&**rule), CDDLType::GroupRule(rule));
        let mut n = 0usize;
        let mut r0 = q.clone();
        r0.push(n);
        n += 1;
        w.ident(&r0, &rule.name);
        if let Some(g) = &rule.generic_params {
          let mut r1 = q.clone();
          r1.push(n);
          n += 1;
          w.gparams(&r1, g);
        }
        let mut r2 = q.clone();
        r2.push(n);
        w.entry(&r2, &rule.entry);
      }
    }
  }
  let mut out = vec![];
  for (path, kind, t) in w.nodes.iter() {
    match t.parent(&pv) {
      None => out.push(json!({"path": path, "kind": kind, "none": true, "got": [], "gotkind": ""})),
      Some(p) => {
        let k = key_of(p);
        match w.paths.get(&k) {
          Some(pp) => out.push(json!({"path": path, "kind": kind, "none": false, "got": pp, "gotkind": k.0})),
          None => out.push(json!({"path": path, "kind": kind, "none": false, "got": [-1], "gotkind": k.0})),
        }
      }
    }
  }
  json!({"ok": true, "built": true, "nodes": out})
}
