// Projection of the crate's AST into the abstract CddlAst encoding of the specification
// (the same JSON the generators produce and spec/CddlSem.tla, spec/AstTree.tla read), and a
// span tree.  Pure projection: no normalisation beyond what is stated inline.
use cddl::ast::*;
use cddl::token::{ByteValue, Value as TV};
use serde_json::{json, Value as J};

fn mag(mut m: u128) -> J {
  let mut v = vec![];
  if m == 0 {
    v.push(0u8);
  }
  while m > 0 {
    v.push((m & 0xff) as u8);
    m >>= 8;
  }
  v.reverse();
  json!(v)
}

fn int_j(i: i128) -> J {
  if i >= 0 {
    json!({"k":"int","neg":false,"mag":mag(i as u128)})
  } else {
    json!({"k":"int","neg":true,"mag":mag((-1 - i) as u128)})
  }
}

fn float_j(f: f64) -> J {
  if f.is_nan() {
    json!({"k":"float","bits":[127,248,0,0,0,0,0,0],"nan":true})
  } else {
    json!({"k":"float","bits":f.to_bits().to_be_bytes().to_vec(),"nan":false})
  }
}

fn text_j(s: &str) -> J {
  json!({"k":"text","cp": s.chars().map(|c| c as u32).collect::<Vec<_>>()})
}

pub fn ident_name(i: &Identifier) -> String {
  i.to_string()
}

fn args_j(ga: &Option<GenericArgs>) -> J {
  match ga {
    None => json!([]),
    Some(g) => J::Array(g.args.iter().map(|a| type1_j(&a.arg)).collect()),
  }
}

fn token_value_j(v: &TV) -> J {
  match v {
    TV::INT(i) => int_j(*i as i128),
    TV::UINT(u) => int_j(*u as i128),
    TV::FLOAT(f) => float_j(*f),
    TV::TEXT(t) => text_j(t),
    TV::BYTE(ByteValue::UTF8(b)) => json!({"k":"bytes","enc":"utf8","raw": b.to_vec()}),
    TV::BYTE(ByteValue::B16(b)) => json!({"k":"bytes","enc":"b16","raw": b.to_vec()}),
    TV::BYTE(ByteValue::B64(b)) => json!({"k":"bytes","enc":"b64","raw": b.to_vec()}),
  }
}

fn tagc_j(t: &Option<cddl::token::TagConstraint>) -> J {
  match t {
    None => json!({"tk":"none"}),
    Some(cddl::token::TagConstraint::Literal(n)) => json!({"tk":"lit","n":mag(*n as u128)}),
    Some(cddl::token::TagConstraint::Type(s)) => json!({"tk":"type","name":s}),
  }
}

fn type2_j(t: &Type2) -> J {
  match t {
    Type2::IntValue { value, .. } => json!({"k":"lit","v":int_j(*value as i128)}),
    Type2::UintValue { value, .. } => json!({"k":"lit","v":int_j(*value as i128)}),
    Type2::FloatValue { value, .. } => json!({"k":"lit","v":float_j(*value)}),
    Type2::TextValue { value, .. } => json!({"k":"lit","v":text_j(value)}),
    Type2::UTF8ByteString { value, .. } => json!({"k":"lit","v":{"k":"bytes","enc":"utf8","raw":value.to_vec()}}),
    Type2::B16ByteString { value, .. } => json!({"k":"lit","v":{"k":"bytes","enc":"b16","raw":value.to_vec()}}),
    Type2::B64ByteString { value, .. } => json!({"k":"lit","v":{"k":"bytes","enc":"b64","raw":value.to_vec()}}),
    Type2::Typename { ident, generic_args, .. } => json!({"k":"ref","n":ident_name(ident),"args":args_j(generic_args)}),
    Type2::ParenthesizedType { pt, .. } => json!({"k":"paren","t":type_j(pt)}),
    Type2::Map { group, .. } => json!({"k":"map","g":group_j(group)}),
    Type2::Array { group, .. } => json!({"k":"arr","g":group_j(group)}),
    Type2::Unwrap { ident, generic_args, .. } => json!({"k":"unwrap","n":ident_name(ident),"args":args_j(generic_args)}),
    Type2::ChoiceFromInlineGroup { group, .. } => json!({"k":"enumg","g":group_j(group)}),
    Type2::ChoiceFromGroup { ident, generic_args, .. } => json!({"k":"enumr","n":ident_name(ident),"args":args_j(generic_args)}),
    Type2::TaggedData { tag, t, .. } => json!({"k":"tag","tag":tagc_j(tag),"t":type_j(t)}),
    Type2::DataMajorType { mt, constraint, .. } => json!({"k":"major","mt":mt,"c":tagc_j(constraint)}),
    Type2::Any { .. } => json!({"k":"any"}),
  }
}

fn ctl_name(c: &cddl::token::ControlOperator) -> String {
  c.to_string().trim_start_matches('.').to_string()
}

pub fn type1_j(t: &Type1) -> J {
  let base = type2_j(&t.type2);
  match &t.operator {
    None => base,
    Some(op) => match &op.operator {
      RangeCtlOp::RangeOp { is_inclusive, .. } => json!({"k":"range","lo":base,"hi":type2_j(&op.type2),"incl":is_inclusive}),
      RangeCtlOp::CtlOp { ctrl, .. } => json!({"k":"ctl","op":ctl_name(ctrl),"t":base,"arg":type2_j(&op.type2)}),
    },
  }
}

pub fn type_j(t: &Type) -> J {
  json!({"alts": t.type_choices.iter().map(|tc| type1_j(&tc.type1)).collect::<Vec<_>>()})
}

fn occ_exact(o: &Option<Occurrence>) -> J {
  // exact bounds as written (decimal strings: usize does not fit a JSON number / TLC integer)
  match o {
    Some(Occurrence { occur: Occur::Exact { lower, upper, .. }, .. }) => {
      json!({"lo": lower.map(|x| x.to_string()), "hi": upper.map(|x| x.to_string())})
    }
    _ => J::Null,
  }
}

fn occ_bounds(o: &Option<Occurrence>) -> (i64, i64, &'static str) {
  match o {
    None => (1, 1, ""),
    Some(o) => match o.occur {
      Occur::Optional { .. } => (0, 1, "?"),
      Occur::ZeroOrMore { .. } => (0, -1, "*"),
      Occur::OneOrMore { .. } => (1, -1, "+"),
      Occur::Exact { lower, upper, .. } => (
        lower.map(|x| x.min(i32::MAX as usize) as i64).unwrap_or(0),
        upper.map(|x| x.min(i32::MAX as usize) as i64).unwrap_or(-1),
        "n*m",
      ),
    },
  }
}

fn key_j(k: &Option<MemberKey>) -> J {
  match k {
    None => json!({"kk":"none"}),
    Some(MemberKey::Bareword { ident, .. }) => {
      let n = ident_name(ident);
      json!({"kk":"bare","n":n,"cp":n.chars().map(|c| c as u32).collect::<Vec<_>>()})
    }
    Some(MemberKey::Value { value, .. }) => json!({"kk":"val","v":token_value_j(value)}),
    Some(MemberKey::Type1 { t1, is_cut, .. }) => json!({"kk":"type","t":type1_j(t1),"cut":is_cut}),
    Some(MemberKey::NonMemberKey { non_member_key, .. }) => match non_member_key {
      NonMemberKey::Group(g) => json!({"kk":"nonmember-group","g":group_j(g)}),
      NonMemberKey::Type(t) => json!({"kk":"nonmember-type","t":type_j(t)}),
    },
  }
}

pub fn entry_j(e: &GroupEntry) -> J {
  match e {
    GroupEntry::ValueMemberKey { ge, .. } => {
      let (lo, hi, sp) = occ_bounds(&ge.occur);
      json!({"k":"ent","lo":lo,"hi":hi,"osp":sp,"oex":occ_exact(&ge.occur),"key":key_j(&ge.member_key),"t":type_j(&ge.entry_type)})
    }
    GroupEntry::TypeGroupname { ge, .. } => {
      let (lo, hi, sp) = occ_bounds(&ge.occur);
      json!({"k":"name","lo":lo,"hi":hi,"osp":sp,"oex":occ_exact(&ge.occur),"n":ident_name(&ge.name),"args":args_j(&ge.generic_args)})
    }
    GroupEntry::InlineGroup { occur, group, .. } => {
      let (lo, hi, sp) = occ_bounds(occur);
      json!({"k":"sub","lo":lo,"hi":hi,"osp":sp,"oex":occ_exact(occur),"g":group_j(group)})
    }
  }
}

pub fn group_j(g: &Group) -> J {
  json!({"galts": g.group_choices.iter().map(|gc| J::Array(gc.group_entries.iter().map(|(e, _)| entry_j(e)).collect())).collect::<Vec<_>>()})
}

fn params_j(p: &Option<GenericParams>) -> J {
  match p {
    None => json!([]),
    Some(p) => J::Array(p.params.iter().map(|x| json!(ident_name(&x.param))).collect()),
  }
}

pub fn proj_cddl(c: &CDDL) -> J {
  J::Array(
    c.rules
      .iter()
      .map(|r| match r {
        Rule::Type { rule, .. } => json!({
          "name": ident_name(&rule.name), "kind":"type",
          "op": if rule.is_type_choice_alternate { "/=" } else { "=" },
          "params": params_j(&rule.generic_params), "t": type_j(&rule.value)}),
        Rule::Group { rule, .. } => json!({
          "name": ident_name(&rule.name), "kind":"group",
          "op": if rule.is_group_choice_alternate { "//=" } else { "=" },
          "params": params_j(&rule.generic_params), "e": entry_j(&rule.entry)}),
      })
      .collect(),
  )
}

// ---------------------------------------------------------------- span tree (C15)
fn sp(s: &Span) -> J {
  json!([s.0, s.1, s.2])
}
fn node(kind: &str, s: &Span, ch: Vec<J>) -> J {
  json!({"k":kind,"s":sp(s),"ch":ch})
}
fn ident_node(i: &Identifier) -> J {
  json!({"k":"ident","s":sp(&i.span),"ch":[],"name":ident_name(i).chars().map(|c| c as u32).collect::<Vec<_>>()})
}
fn gargs_node(g: &Option<GenericArgs>) -> Vec<J> {
  match g {
    None => vec![],
    Some(g) => vec![node("genericargs", &g.span, g.args.iter().map(|a| type1_node(&a.arg)).collect())],
  }
}
fn type2_node(t: &Type2) -> J {
  match t {
    Type2::IntValue { span, .. } => node("lit", span, vec![]),
    Type2::UintValue { span, .. } => node("lit", span, vec![]),
    Type2::FloatValue { span, .. } => node("lit", span, vec![]),
    Type2::TextValue { span, .. } => node("lit", span, vec![]),
    Type2::UTF8ByteString { span, .. } => node("lit", span, vec![]),
    Type2::B16ByteString { span, .. } => node("lit", span, vec![]),
    Type2::B64ByteString { span, .. } => node("lit", span, vec![]),
    Type2::Typename { ident, generic_args, span } => {
      let mut ch = vec![ident_node(ident)];
      ch.extend(gargs_node(generic_args));
      node("typename", span, ch)
    }
    Type2::ParenthesizedType { pt, span, .. } => node("paren", span, vec![type_node(pt)]),
    Type2::Map { group, span, .. } => node("map", span, vec![group_node(group)]),
    Type2::Array { group, span, .. } => node("array", span, vec![group_node(group)]),
    Type2::Unwrap { ident, generic_args, span, .. } => {
      let mut ch = vec![ident_node(ident)];
      ch.extend(gargs_node(generic_args));
      node("unwrap", span, ch)
    }
    Type2::ChoiceFromInlineGroup { group, span, .. } => node("enumg", span, vec![group_node(group)]),
    Type2::ChoiceFromGroup { ident, generic_args, span, .. } => {
      let mut ch = vec![ident_node(ident)];
      ch.extend(gargs_node(generic_args));
      node("enumr", span, ch)
    }
    Type2::TaggedData { t, span, .. } => node("tag", span, vec![type_node(t)]),
    Type2::DataMajorType { span, .. } => node("major", span, vec![]),
    Type2::Any { span } => node("any", span, vec![]),
  }
}
fn type1_node(t: &Type1) -> J {
  let mut ch = vec![type2_node(&t.type2)];
  if let Some(op) = &t.operator {
    match &op.operator {
      RangeCtlOp::RangeOp { span, .. } => ch.push(node("rangeop", span, vec![])),
      RangeCtlOp::CtlOp { span, .. } => ch.push(node("ctlop", span, vec![])),
    }
    ch.push(type2_node(&op.type2));
  }
  node("type1", &t.span, ch)
}
fn type_node(t: &Type) -> J {
  node("type", &t.span, t.type_choices.iter().map(|tc| type1_node(&tc.type1)).collect())
}
fn occ_node(o: &Option<Occurrence>) -> Vec<J> {
  match o {
    None => vec![],
    Some(o) => {
      let s = match &o.occur {
        Occur::Optional { span } => span,
        Occur::ZeroOrMore { span } => span,
        Occur::OneOrMore { span } => span,
        Occur::Exact { span, .. } => span,
      };
      vec![node("occur", s, vec![])]
    }
  }
}
fn key_node(k: &Option<MemberKey>) -> Vec<J> {
  match k {
    None => vec![],
    Some(MemberKey::Bareword { ident, span, .. }) => vec![node("memberkey", span, vec![ident_node(ident)])],
    Some(MemberKey::Value { span, .. }) => vec![node("memberkey", span, vec![])],
    Some(MemberKey::Type1 { t1, span, .. }) => vec![node("memberkey", span, vec![type1_node(t1)])],
    Some(MemberKey::NonMemberKey { .. }) => vec![],
  }
}
fn entry_node(e: &GroupEntry) -> J {
  match e {
    GroupEntry::ValueMemberKey { ge, span, .. } => {
      let mut ch = occ_node(&ge.occur);
      ch.extend(key_node(&ge.member_key));
      ch.push(type_node(&ge.entry_type));
      node("entry", span, ch)
    }
    GroupEntry::TypeGroupname { ge, span, .. } => {
      let mut ch = occ_node(&ge.occur);
      ch.push(ident_node(&ge.name));
      ch.extend(gargs_node(&ge.generic_args));
      node("nameentry", span, ch)
    }
    GroupEntry::InlineGroup { occur, group, span, .. } => {
      let mut ch = occ_node(occur);
      ch.push(group_node(group));
      node("inlinegroup", span, ch)
    }
  }
}
fn group_node(g: &Group) -> J {
  node(
    "group",
    &g.span,
    g.group_choices
      .iter()
      .map(|gc| node("groupchoice", &gc.span, gc.group_entries.iter().map(|(e, _)| entry_node(e)).collect()))
      .collect(),
  )
}
fn gparams_node(p: &Option<GenericParams>) -> Vec<J> {
  match p {
    None => vec![],
    Some(p) => vec![node("genericparams", &p.span, p.params.iter().map(|x| ident_node(&x.param)).collect())],
  }
}

pub fn span_tree(c: &CDDL, text: &str) -> J {
  let rules: Vec<J> = c
    .rules
    .iter()
    .map(|r| match r {
      Rule::Type { rule, span, .. } => {
        let mut ch = vec![ident_node(&rule.name)];
        ch.extend(gparams_node(&rule.generic_params));
        ch.push(type_node(&rule.value));
        node("rule", span, ch)
      }
      Rule::Group { rule, span, .. } => {
        let mut ch = vec![ident_node(&rule.name)];
        ch.extend(gparams_node(&rule.generic_params));
        ch.push(entry_node(&rule.entry));
        node("rule", span, ch)
      }
    })
    .collect();
  json!({"k":"cddl","s":[0, text.len(), 1],"ch":rules})
}

pub fn comments(c: &CDDL) -> J {
  // every comment string attached anywhere in the AST, via the derived Debug output
  // (Comments is a tuple struct of &str); the driver extracts them.
  json!(format!("{:?}", c))
}
