use serde_json::{json, Value as J};
pub fn proj_cddl(_c: &cddl::ast::CDDL) -> J { json!({}) }
pub fn span_tree(_c: &cddl::ast::CDDL, _t: &str) -> J { json!({}) }
pub fn comments(_c: &cddl::ast::CDDL) -> J { json!([]) }
