// conform: executor + projections for the model-based verification of anweiss/cddl.
//
// Protocol: one JSON object per input line ({"id":..,"op":..,...}); one JSON object per
// output line ({"id":..,"obs":{...}}), flushed after every line so that the driver can tell
// which input killed the process (abort, stack overflow) or made it hang.
//
// This binary contains NO reference semantics: it renders nothing, decides nothing. It
// calls the real entry points and projects their results into the abstract encoding that
// the TLA+ specification (spec/*.tla) reads.

mod ast_proj;
mod parents;

use serde_json::{json, Map, Value as J};
use std::io::{BufRead, Write};
use std::panic::{catch_unwind, AssertUnwindSafe};

fn hex_decode(s: &str) -> Vec<u8> {
  let b = s.as_bytes();
  let mut out = Vec::with_capacity(b.len() / 2);
  let hv = |c: u8| -> u8 {
    match c {
      b'0'..=b'9' => c - b'0',
      b'a'..=b'f' => c - b'a' + 10,
      b'A'..=b'F' => c - b'A' + 10,
      _ => 0,
    }
  };
  let mut i = 0;
  while i + 1 < b.len() {
    out.push(hv(b[i]) * 16 + hv(b[i + 1]));
    i += 2;
  }
  out
}

fn mag_bytes(mut m: u128) -> J {
  let mut v = vec![];
  if m == 0 {
    v.push(0u8);
  }
  while m > 0 {
    v.push((m & 0xff) as u8);
    m >>= 8;
  }
  v.reverse();
  json!(v)
}

pub fn cps(s: &str) -> J {
  J::Array(s.chars().map(|c| json!(c as u32)).collect())
}

fn proj_cbor(v: &cddl::validator::cbor_value::Value) -> J {
  use cddl::validator::cbor_value::Value as V;
  match v {
    V::Integer(i) => {
      let n: i128 = (*i).into();
      if n >= 0 {
        json!({"k":"int","neg":false,"mag":mag_bytes(n as u128)})
      } else {
        json!({"k":"int","neg":true,"mag":mag_bytes((-1 - n) as u128)})
      }
    }
    V::Bytes(b) => json!({"k":"bytes","bs":b}),
    V::Float(f) => json!({"k":"float","bits":f.to_bits().to_be_bytes().to_vec(), "nan": f.is_nan()}),
    V::Text(s) => json!({"k":"text","cp":cps(s)}),
    V::Bool(b) => json!({"k":"bool","b":b}),
    V::Null => json!({"k":"null"}),
    V::Tag(t, inner) => json!({"k":"tag","tn":mag_bytes(*t as u128),"c":proj_cbor(inner)}),
    V::Array(a) => json!({"k":"arr","items":a.iter().map(proj_cbor).collect::<Vec<_>>()}),
    V::Map(m) => json!({"k":"map","pairs":m.iter().map(|(k,v)| json!({"key":proj_cbor(k),"val":proj_cbor(v)})).collect::<Vec<_>>()}),
    V::Simple(s) => json!({"k":"simple","sn":s}),
  }
}

fn feats(c: &J) -> Option<Vec<String>> {
  c.get("features").and_then(|f| f.as_array()).map(|a| {
    a.iter()
      .filter_map(|x| x.as_str().map(|s| s.to_string()))
      .collect()
  })
}

fn verrs_json(errs: &[cddl::validator::json::ValidationError]) -> J {
  J::Array(
    errs
      .iter()
      .map(|e| json!({"loc": e.json_location, "cddl": e.cddl_location, "reason": e.reason}))
      .collect(),
  )
}
fn verrs_cbor(errs: &[cddl::validator::cbor::ValidationError]) -> J {
  J::Array(
    errs
      .iter()
      .map(|e| json!({"loc": e.cbor_location, "cddl": e.cddl_location, "reason": e.reason}))
      .collect(),
  )
}

fn op_validate_json(c: &J) -> J {
  let cddl_s = c["cddl"].as_str().unwrap_or("");
  let doc = c["json"].as_str().unwrap_or("");
  let f = feats(c);
  let fr: Option<Vec<&str>> = f.as_ref().map(|v| v.iter().map(|s| s.as_str()).collect());
  let r = cddl::validate_json_from_str(cddl_s, doc, fr.as_deref());
  use cddl::validator::json::Error as E;
  match r {
    Ok(()) => json!({"ok":true,"kind":"ok","errors":[]}),
    Err(E::Validation(v)) => json!({"ok":false,"kind":"validation","errors":verrs_json(&v)}),
    Err(E::JSONParsing(e)) => json!({"ok":false,"kind":"doc","msg":e.to_string()}),
    Err(E::CDDLParsing(e)) => json!({"ok":false,"kind":"cddl","msg":e}),
    Err(E::UTF8Parsing(e)) => json!({"ok":false,"kind":"utf8","msg":e.to_string()}),
    Err(E::DisabledFeature(e)) => json!({"ok":false,"kind":"feature","msg":e}),
  }
}

fn op_validate_cbor(c: &J) -> J {
  let cddl_s = c["cddl"].as_str().unwrap_or("");
  let bytes = hex_decode(c["hex"].as_str().unwrap_or(""));
  let f = feats(c);
  let fr: Option<Vec<&str>> = f.as_ref().map(|v| v.iter().map(|s| s.as_str()).collect());
  let r = cddl::validate_cbor_from_slice(cddl_s, &bytes, fr.as_deref());
  use cddl::validator::cbor::Error as E;
  match r {
    Ok(()) => json!({"ok":true,"kind":"ok","errors":[]}),
    Err(E::Validation(v)) => json!({"ok":false,"kind":"validation","errors":verrs_cbor(&v)}),
    Err(E::CBORParsing(e)) => json!({"ok":false,"kind":"doc","msg":e.to_string()}),
    Err(E::JSONParsing(e)) => json!({"ok":false,"kind":"jsonctl","msg":e.to_string()}),
    Err(E::CDDLParsing(e)) => {
      // decode errors of the document are reported through the same variant; the
      // message prefix is not inspected here, the driver classifies with a separate
      // decode_cbor / parse call.
      json!({"ok":false,"kind":"cddl","msg":e})
    }
    Err(E::UTF8Parsing(e)) => json!({"ok":false,"kind":"utf8","msg":e.to_string()}),
    Err(E::Base16Decoding(e)) => json!({"ok":false,"kind":"b16","msg":e.to_string()}),
    Err(E::Base64Decoding(e)) => json!({"ok":false,"kind":"b64","msg":e.to_string()}),
  }
}

fn op_validate_csv(c: &J) -> J {
  let cddl_s = c["cddl"].as_str().unwrap_or("");
  let csv = c["csv"].as_str().unwrap_or("");
  let header = c.get("header").and_then(|h| h.as_bool());
  let f = feats(c);
  let fr: Option<Vec<&str>> = f.as_ref().map(|v| v.iter().map(|s| s.as_str()).collect());
  let r = cddl::validate_csv_from_str(cddl_s, csv, header, fr.as_deref());
  use cddl::validator::csv_validator::Error as E;
  match r {
    Ok(()) => json!({"ok":true,"kind":"ok","errors":[]}),
    Err(e) => {
      use cddl::validator::json::Error as JE;
      let (kind, errors) = match &e {
        E::Validation(v) => ("validation", verrs_json(v)),
        E::JSONValidation(JE::Validation(v)) => ("validation", verrs_json(v)),
        E::JSONValidation(JE::CDDLParsing(_)) => ("cddl", json!([])),
        E::JSONValidation(_) => ("other", json!([])),
        E::JSONSerialization(_) => ("other", json!([])),
        E::CSVParsing(_) => ("doc", json!([])),
        E::CDDLParsing(_) => ("cddl", json!([])),
      };
      json!({"ok":false,"kind":kind,"errors":errors,"msg":e.to_string()})
    }
  }
}

fn op_csv_to_json(c: &J) -> J {
  let csv = c["csv"].as_str().unwrap_or("");
  let header = c.get("header").and_then(|h| h.as_bool());
  match cddl::validator::csv_validator::parse_csv_to_json(csv, header) {
    Ok(v) => json!({"ok":true,"json":v, "text": v.to_string()}),
    Err(e) => json!({"ok":false,"msg":e.to_string()}),
  }
}

fn op_decode_cbor(c: &J) -> J {
  let bytes = hex_decode(c["hex"].as_str().unwrap_or(""));
  use cddl::validator::cbor_value::DecodeError as D;
  match cddl::validator::cbor_value::decode_cbor(&bytes) {
    Ok(v) => json!({"ok":true,"v":proj_cbor(&v)}),
    Err(D::Io(e)) => json!({"ok":false,"err":"io","msg":e.to_string()}),
    Err(D::Syntax(o)) => json!({"ok":false,"err":"syntax","off":o}),
    Err(D::UnexpectedEof) => json!({"ok":false,"err":"eof"}),
    Err(D::UnexpectedBreak) => json!({"ok":false,"err":"break"}),
  }
}

fn perr(e: &cddl::parser::Error, input: &str) -> J {
  use cddl::parser::Error as E;
  match e {
    E::PARSER { position, msg } => json!({
      "class":"parser",
      "line": position.line, "column": position.column,
      "r0": position.range.0, "r1": position.range.1, "index": position.index,
      "short": msg.short, "len": input.len(), "chars": input.chars().count(),
    }),
    E::CDDL(s) => json!({"class":"cddl","msg":s}),
    E::REGEX(_) => json!({"class":"regex"}),
  }
}

fn op_parse(c: &J) -> J {
  let text = c["cddl"].as_str().unwrap_or("");
  let want_ast = c.get("ast").and_then(|b| b.as_bool()).unwrap_or(false);
  let want_spans = c.get("spans").and_then(|b| b.as_bool()).unwrap_or(false);
  let mut o = Map::new();
  // 1. pest bridge (unchecked)
  match cddl::pest_bridge::cddl_from_pest_str(text) {
    Ok(ast) => {
      o.insert("ok".into(), json!(true));
      if want_ast {
        o.insert("ast".into(), ast_proj::proj_cddl(&ast));
      }
      if want_spans {
        o.insert("spans".into(), ast_proj::span_tree(&ast, text));
      }
      if c.get("comments").and_then(|b| b.as_bool()).unwrap_or(false) {
        o.insert("comments".into(), ast_proj::comments(&ast));
      }
      let t1 = ast.to_string();
      o.insert("fmt".into(), json!(t1));
      if c.get("roundtrip").and_then(|b| b.as_bool()).unwrap_or(false) {
        match cddl::pest_bridge::cddl_from_pest_str(&t1) {
          Ok(ast2) => {
            o.insert("ok2".into(), json!(true));
            if want_ast {
              o.insert("ast2".into(), ast_proj::proj_cddl(&ast2));
            }
            if c.get("comments").and_then(|b| b.as_bool()).unwrap_or(false) {
              o.insert("comments2".into(), ast_proj::comments(&ast2));
            }
            o.insert("fmt2".into(), json!(ast2.to_string()));
          }
          Err(e) => {
            o.insert("ok2".into(), json!(false));
            o.insert("err2".into(), perr(&e, &t1));
          }
        }
      }
    }
    Err(e) => {
      o.insert("ok".into(), json!(false));
      o.insert("err".into(), perr(&e, text));
    }
  }
  // 2. cddl_from_str (public string-error entry point)
  let r2 = cddl::cddl_from_str(text, false);
  o.insert("str_ok".into(), json!(r2.is_ok()));
  if let Err(e) = &r2 {
    o.insert("str_err".into(), json!(e));
  }
  // 3. checked entry point
  let r3 = cddl::ast::CDDL::from_slice(text.as_bytes());
  o.insert("checked_ok".into(), json!(r3.is_ok()));
  if let Err(e) = &r3 {
    o.insert("checked_err".into(), json!(e));
  }
  J::Object(o)
}

fn op_parents(c: &J) -> J {
  let text = c["cddl"].as_str().unwrap_or("");
  match cddl::pest_bridge::cddl_from_pest_str(text) {
    Ok(ast) => parents::check(&ast),
    Err(_) => json!({"ok":false}),
  }
}

fn run(c: &J) -> J {
  match c["op"].as_str().unwrap_or("") {
    "validate_json" => op_validate_json(c),
    "validate_cbor" => op_validate_cbor(c),
    "validate_csv" => op_validate_csv(c),
    "csv_to_json" => op_csv_to_json(c),
    "decode_cbor" => op_decode_cbor(c),
    "parse" => op_parse(c),
    "parents" => op_parents(c),
    "ping" => json!({"pong":true}),
    other => json!({"tool_error": format!("unknown op {}", other)}),
  }
}

fn serve() {
  let stdin = std::io::stdin();
  let stdout = std::io::stdout();
  let mut out = stdout.lock();
  for line in stdin.lock().lines() {
    let line = match line {
      Ok(l) => l,
      Err(_) => break,
    };
    if line.trim().is_empty() {
      continue;
    }
    let c: J = match serde_json::from_str(&line) {
      Ok(c) => c,
      Err(e) => {
        let _ = writeln!(out, "{}", json!({"tool_error": e.to_string()}));
        let _ = out.flush();
        continue;
      }
    };
    let id = c.get("id").cloned().unwrap_or(J::Null);
    let t0 = std::time::Instant::now();
    let reps = c.get("reps").and_then(|r| r.as_u64()).unwrap_or(1);
    let mut obs = J::Null;
    let mut all_same = true;
    for i in 0..reps {
      let r = catch_unwind(AssertUnwindSafe(|| run(&c)));
      let o = match r {
        Ok(o) => o,
        Err(p) => {
          let msg = if let Some(s) = p.downcast_ref::<&str>() {
            s.to_string()
          } else if let Some(s) = p.downcast_ref::<String>() {
            s.clone()
          } else {
            "panic".to_string()
          };
          json!({"panic": msg})
        }
      };
      if i == 0 {
        obs = o;
      } else if o != obs {
        all_same = false;
      }
    }
    let us = t0.elapsed().as_micros() as u64;
    let _ = writeln!(out, "{}", json!({"id": id, "obs": obs, "us": us, "det": all_same}));
    let _ = out.flush();
  }
}

// Multi-threaded determinism driver (C14): the same multiset of calls is executed on N
// threads in a shuffled order given by the driver; every result is reported with the
// per-thread sequence number.
fn threads(n: usize) {
  let stdin = std::io::stdin();
  let cases: Vec<J> = stdin
    .lock()
    .lines()
    .filter_map(|l| l.ok())
    .filter(|l| !l.trim().is_empty())
    .filter_map(|l| serde_json::from_str(&l).ok())
    .collect();
  let cases = std::sync::Arc::new(cases);
  let mut hs = vec![];
  for t in 0..n {
    let cases = cases.clone();
    hs.push(
      std::thread::Builder::new()
        .stack_size(64 << 20)
        .spawn(move || {
          let mut outv = vec![];
          let mut seq = 0u64;
          // thread t runs cases in a rotated/strided order so that threads overlap on
          // different calls at the same time
          let len = cases.len();
          for k in 0..len {
            let idx = (k * (2 * t + 1) + t * 7) % len;
            let c = &cases[idx];
            let o = catch_unwind(AssertUnwindSafe(|| run(c))).unwrap_or(json!({"panic":"panic"}));
            outv.push(json!({"id": c["id"], "thread": t, "seq": seq, "obs": o}));
            seq += 1;
          }
          outv
        })
        .unwrap(),
    );
  }
  let stdout = std::io::stdout();
  let mut out = stdout.lock();
  for h in hs {
    for o in h.join().unwrap_or_default() {
      let _ = writeln!(out, "{}", o);
    }
  }
}

fn main() {
  let args: Vec<String> = std::env::args().collect();
  // silence the default panic hook (a panic of the code under test is data)
  std::panic::set_hook(Box::new(|_| {}));
  let mode = args.get(1).map(|s| s.as_str()).unwrap_or("serve");
  match mode {
    "serve" => {
      // run on a thread with the default 8 MiB main-thread-like stack
      let h = std::thread::Builder::new()
        .stack_size(8 << 20)
        .spawn(serve)
        .unwrap();
      let _ = h.join();
    }
    "threads" => {
      let n = args.get(2).and_then(|s| s.parse().ok()).unwrap_or(8);
      threads(n);
    }
    _ => {
      eprintln!("usage: conform serve|threads N");
      std::process::exit(2);
    }
  }
}
